"""C18 — standard-library containers and helpers meet their contracts: cross-language table agreement and
family consistency (DESIGN §4 C18)."""
import os
import re

import luaparse
import syparse
from facts import AnchorMissing

EXPLANATION = (
    "Decides cross-language agreement and family consistency of the library (necessary conditions of the model "
    "equivalence): (EXTERNALS) every `external` of std/{common,list,dict,set,math,maybe}.sy resolves to a global function or "
    "alias defined in preamble.lua taking the declared number of parameters, and every callback parameter is called with "
    "the arity its Sylt type states; (ALIASES) every `name :: other` wrapper of the std modules refers to a declared name; "
    "(KEY-NORM) within dict_* and within set_* every access to the container by the key parameter uses the same "
    "normaliser (tostring(k)); (CONSTRUCTOR) functions of one family build their result with that family's constructor; "
    "(MAYBE-SHAPE) every Maybe built in Lua has the shape the compiler emits: {\"Just\", v} / {\"None\", __NIL}; (INDEX-BASE) "
    "list accesses by a Sylt index add 1, pop/last use length - 1; (INDEX-BOUNDS) a guard on a Sylt index lets both ends of "
    "the valid range through; (GLOBAL-LEAK) accidental global writes inside library "
    "functions are reported as information."
    ' (CALLBACK-ROLES) each callback is called with values of the declared roles (element / accumulator / key-value pair), inferred in the Lua body from the declared parameter types; (INDEX-BOUNDS) index guards evaluated at both ends of the valid range.'
    ' (INDEX-BOUNDS guard-excludes-invalid) a guarded write lets no invalid index through; (KEY-NORM injective) the key normaliser is injective on tuple keys (known finding).'
    ' (ORDER-MODEL) abs, min, max, clamp (std/math.sy) and sign (preamble.lua) touch their arguments only through comparisons, negation and selection - checked on their syntax trees - so they are decision trees over the order of {x, -x, 0}; each is compared with its model on a grid that has a point in every order cell (a finite-model argument, not a sample); a definition that uses arithmetic is reported as not decided, never as a violation. (KEYED-EQ / KEYED-SIZE) equality of dicts and sets walks both operands and never uses `#` on a keyed table. (EXTERNALS type-arguments-given) no external leaves a generic library type without its arguments.'
    ' (SEARCH) an external shaped `[T], (T -> bool) -> Maybe(T)` leaves its loop where the predicate first holds; (VALUE-SEM) library functions store into the container they were given or a table they made, never into an element taken out of a container; (PURITY-DECL callbacks) `pu` externals take `pu` callbacks.'
    ' (VALUE-SEM identity) no library function compares values with rawequal; (NUM-REP) floor answers the integer subtype (math.floor).'
    ' (VALUE-SEM presence) no runtime function lets the truth of an element it read stand for its presence; (KEY-NORM strings-stay-distinct) keys are not read as numbers.'
)
UNDECIDED = "the arithmetic helpers div and floor (numeric identities), model equivalence over operation histories, the semantics of map/filter/fold callbacks, iteration order of pairs()."

MANIFEST = dict(
    text=EXPLANATION + " Not decided: " + UNDECIDED,
    technique="cross-language table agreement: Sylt external declarations (own reader) vs Lua definitions (own Lua parser) + family-consistency rules on the Lua AST",
)

STD = ["common", "list", "dict", "set", "math", "maybe", "unsafe"]
# arities of Lua built-ins the preamble aliases: (min, max)
BUILTIN_ARITY = {
    "print": (0, 99), "tostring": (1, 1), "table.insert": (2, 3), "math.sin": (1, 1), "math.cos": (1, 1), "math.floor": (1, 1),
    "math.sqrt": (1, 1), "math.pow": (2, 2), "math.random": (0, 2), "math.abs": (1, 1),
}
# externals outside the families the property names, without a definition (information only)
NOT_IN_FAMILIES = {"args"}


class Lua:
    def __init__(self, src):
        self.ast = luaparse.parse(src)
        self.globals = {}   # name -> ("function", node) | ("alias", expr)
        self.order = []
        for s in self.ast["stmts"]:
            if s["k"] == "Assign" and len(s["targets"]) == 1 and s["targets"][0]["k"] == "Name":
                name = s["targets"][0]["name"]
                e = s["es"][0]
                self.globals[name] = ("function", e) if e["k"] == "Function" else ("alias", e)
                self.order.append(name)

    def arity(self, name, depth=0):
        """(min, max) parameter count of a global, following aliases"""
        g = self.globals.get(name)
        if g is None or depth > 5:
            return None
        kind, e = g
        if kind == "function":
            return (len(e["params"]), 99 if e["vararg"] else len(e["params"]))
        txt = luaparse.show(e)
        if e["k"] == "Name":
            if e["name"] == name:      # print = print
                return BUILTIN_ARITY.get(name)
            return self.arity(e["name"], depth + 1) or BUILTIN_ARITY.get(e["name"])
        if e["k"] == "Index" and txt in BUILTIN_ARITY:
            return BUILTIN_ARITY[txt]
        if e["k"] == "Call" and luaparse.show(e["f"]) == "__CRASH":
            return (0, 99)  # a stub that crashes when called, whatever the arguments
        return None


def fn_arity(t):
    return len(t[2]) if t[0] == "fn" else None


def run(F, rep, tier):
    rep.explanation = EXPLANATION
    rep.undecided = UNDECIDED
    lua = Lua(F.read("sylt-compiler/src/preamble.lua"))
    rep.ob("PARSE", "preamble.lua", True, "preamble.lua parsed: %d global definitions" % len(lua.globals), sites=len(lua.globals))
    mods = {}
    for m in STD:
        mods[m] = syparse.read_module(F.read(os.path.join("std", m + ".sy")))
    externals(rep, lua, mods)
    callback_roles(rep, lua, mods)
    search_first_match(rep, lua, mods)
    elements_are_values(rep, lua)
    values_compared_structurally(rep, lua)
    presence_is_not_truth(rep, lua)
    integer_results(rep, lua)
    aliases(rep, mods)
    key_norm(rep, lua)
    key_injective(rep, lua)
    key_not_coerced(rep, lua)
    keyed_table_size(rep, lua, mods)
    externals_fully_typed(F, rep, mods)
    declared_purity(rep, lua, mods)
    library_values_have_their_fields(F, rep, lua, mods)
    # abs / min / max / clamp / sign touch their arguments only through comparisons and negation: decided on every order cell
    import ordeval
    ordeval.decide(F, rep, lua)
    constructors(rep, lua)
    entries_change_through_the_primitives(rep, lua)
    maybe_shape(F, rep, lua)
    index_base(rep, lua)
    index_bounds(rep, lua)
    random_interval(rep, lua)
    global_leak(rep, lua)


def purity_decl(F, rep):
    lua = Lua(F.read("sylt-compiler/src/preamble.lua"))
    mods = {}
    for m in STD:
        mods[m] = syparse.read_module(F.read(os.path.join("std", m + ".sy")))
    declared_purity(rep, lua, mods)


def library_typing(F, rep):
    """the part of C18 that type soundness rests on (C02): what the std declarations say about the externals - names, arities,
    the order in which a callback receives its arguments, the type arguments of generic results - is what the Lua
    definitions do"""
    lua = Lua(F.read("sylt-compiler/src/preamble.lua"))
    mods = {}
    for m in STD:
        mods[m] = syparse.read_module(F.read(os.path.join("std", m + ".sy")))
    externals(rep, lua, mods)
    callback_roles(rep, lua, mods)
    externals_fully_typed(F, rep, mods)


def externals(rep, lua, mods):
    n = 0
    for mname, mod in mods.items():
        for name, types in sorted(mod["externals"].items()):
            for t in types:
                n += 1
                key = "%s.%s" % (mname, name)
                if name not in lua.globals:
                    if name in NOT_IN_FAMILIES:
                        rep.info("external %s has no definition in preamble.lua (outside the families the property names)" % key)
                        continue
                    rep.ob("EXTERNALS", key + "|defined", False, "external `%s` (std/%s.sy) has no global definition in preamble.lua" % (name, mname))
                    continue
                if t[0] != "fn":
                    rep.ob("EXTERNALS", key + "|defined", True, "external value `%s` is defined in preamble.lua" % name)
                    continue
                want = fn_arity(t)
                ar = lua.arity(name)
                if len(types) > 1 and name == "xx_len":
                    key += "#%d" % (types.index(t) + 1)
                ok = ar is not None and ar[0] <= want <= ar[1]
                rep.ob("EXTERNALS", key + "|arity", ok,
                       "external `%s` takes %d parameter(s) in std/%s.sy and %s in preamble.lua" % (name, want, mname, ar))
                # callbacks
                kind, e = lua.globals[name]
                if kind != "function":
                    continue
                for i, p in enumerate(t[2]):
                    if p[0] == "fn" and i < len(e["params"]):
                        pname = e["params"][i]
                        calls = [c for c in luaparse.walk(e["body"]) if c.get("k") == "Call" and c["f"].get("k") == "Name" and c["f"]["name"] == pname]
                        want_cb = len(p[2])
                        got = sorted({len(c["args"]) for c in calls})
                        rep.ob("EXTERNALS", key + "|callback-%s" % pname, bool(calls) and got == [want_cb],
                               "callback parameter `%s` of %s is declared with %d parameter(s) and called with %s argument(s) (%d call sites)" % (
                                   pname, name, want_cb, got, len(calls)), sites=len(calls))
    rep.floor("EXTERNALS", "external declarations", n, 45)


def _show_ty(t):
    if not isinstance(t, tuple):
        return str(t)
    if t[0] == "generic":
        return "*" + t[1]
    if t[0] == "list":
        return "[" + _show_ty(t[1]) + "]"
    if t[0] == "tuple":
        return "(" + ", ".join(_show_ty(x) for x in t[1]) + ")"
    if t[0] == "user":
        return t[1] + ("(" + ", ".join(_show_ty(x) for x in t[2]) + ")" if t[2] else "")
    if t[0] == "fn":
        return "fn " + ", ".join(_show_ty(x) for x in t[2]) + " -> " + _show_ty(t[3])
    return t[0]


def callback_roles(rep, lua, mods):
    """the Sylt declaration of an external is what user callbacks are type-checked against; the Lua implementation must
    hand each callback parameter a value of the declared role.  Roles are inferred in the Lua body from the declared
    parameter types: the parameters themselves, and the loop variables of `for k, v in pairs(p)` over a list (v: element),
    a Dict (v: the stored (key, value) pair) or a Set (v: element)."""
    n = 0
    for mname, mod in mods.items():
        for name, types in sorted(mod["externals"].items()):
            for t in types:
                if t[0] != "fn" or name not in lua.globals or not any(p[0] == "fn" for p in t[2]):
                    continue
                kind, e = lua.globals[name]
                if kind != "function":
                    continue
                env = {}
                for i, p in enumerate(t[2]):
                    if i < len(e["params"]):
                        env[e["params"][i]] = p
                for x in luaparse.walk(e["body"]):
                    if x.get("k") == "ForIn" and len(x["es"]) == 1 and x["es"][0].get("k") == "Call":
                        c = x["es"][0]
                        if c["f"].get("k") == "Name" and c["f"]["name"] in ("pairs", "ipairs") and len(c["args"]) == 1 \
                                and c["args"][0].get("k") == "Name" and c["args"][0]["name"] in env and len(x["names"]) == 2:
                            ct = env[c["args"][0]["name"]]
                            if ct[0] == "list":
                                env[x["names"][1]] = ct[1]
                            elif ct[0] == "user" and ct[1] == "Dict" and len(ct[2]) == 2:
                                env[x["names"][1]] = ("tuple", list(ct[2]))
                            elif ct[0] == "user" and ct[1] == "Set" and len(ct[2]) == 1:
                                env[x["names"][1]] = ct[2][0]
                for i, p in enumerate(t[2]):
                    if p[0] != "fn" or i >= len(e["params"]):
                        continue
                    pname = e["params"][i]
                    calls = [c for c in luaparse.walk(e["body"]) if c.get("k") == "Call" and c["f"].get("k") == "Name" and c["f"]["name"] == pname]
                    for ci, c in enumerate(calls):
                        for j, a in enumerate(c["args"]):
                            if j >= len(p[2]):
                                continue
                            key = "%s.%s|%s#%d|arg%d" % (mname, name, pname, ci + 1, j + 1)
                            if a.get("k") == "Name" and a["name"] in env:
                                n += 1
                                got, want = env[a["name"]], p[2][j]
                                rep.ob("CALLBACK-ROLES", key, got == want,
                                       "%s calls its callback `%s` with `%s` (%s) as argument %d, declared in std/%s.sy as %s" % (
                                           name, pname, a["name"], _show_ty(got), j + 1, mname, _show_ty(want)),
                                       "sylt-compiler/src/preamble.lua:%s" % c.get("line"))
                            else:
                                rep.ob("CALLBACK-ROLES", key, False,
                                       "cannot tell the role of argument %d (`%s`) that %s passes to its callback `%s`" % (
                                           j + 1, luaparse.show(a), name, pname), "sylt-compiler/src/preamble.lua:%s" % c.get("line"))
    rep.floor("CALLBACK-ROLES", "callback arguments with an inferred role", n, 10)


def elements_are_values(rep, lua, rule="VALUE-SEM"):
    """Tuples, and whatever else a container holds, are values: the program that put `(1, "a")` into a list and a dict holds
    two equal values, not one shared cell.  A library function may store into the container it was given (that is what
    `set` / `update` are for) and into tables it has just made; it does not store into an *element* it took out of a container
    (`local e = dict[key]; e[2] = v`, or the loop variable of pairs()) - the same table may sit in another container or variable."""
    n = 0
    for fname, (kind, f) in sorted(lua.globals.items()):
        if kind != "function":
            continue
        params = set(f["params"])
        origin = {}
        for st in luaparse.walk(f["body"]):
            if st.get("k") == "Local":
                for i, nm in enumerate(st["names"]):
                    origin.setdefault(nm, ("init", st["es"][i] if i < len(st["es"]) else None))
            elif st.get("k") == "ForIn":
                for nm in st["names"]:
                    origin.setdefault(nm, ("loop", st))
            elif st.get("k") == "ForNum":
                origin.setdefault(st["var"], ("num", st))
        k_ = 0
        for st in luaparse.walk(f["body"]):
            if st.get("k") != "Assign":
                continue
            for t in st["targets"]:
                if t.get("k") != "Index":
                    continue
                base = t["obj"]
                while base.get("k") in ("Paren",):
                    base = base["e"]
                if base.get("k") != "Name":
                    # a store through a longer path `a[i][j] = v`: into an element of the container
                    if base.get("k") == "Index":
                        n += 1
                        k_ += 1
                        rep.ob(rule, "%s|store#%d" % (fname, k_), False,
                               "%s stores through `%s`: into an element it reads out of a container, which other containers and "
                               "variables may share" % (fname, luaparse.show(t)), "sylt-compiler/src/preamble.lua:%s" % st.get("line"))
                    continue
                nm = base["name"]
                if nm in params or nm not in origin:
                    n += nm in params
                    continue  # the container itself, or a table of the runtime (not a local)
                n += 1
                k_ += 1
                how, src = origin[nm]
                taken = how == "loop" or (how == "init" and isinstance(src, dict) and src.get("k") == "Index")
                rep.ob(rule, "%s|store#%d" % (fname, k_), not taken,
                       "%s stores into `%s`, a table it made itself" % (fname, nm) if not taken else
                       "%s stores into `%s`, which it took out of a container (%s): the element is a value that the list it came from, "
                       "or another variable, still holds - `l :: [(1, \"a\")]  d :: dict.from_list(l)  dict.update(d, 1, \"b\")` must leave "
                       "l[0] as it was" % (fname, nm, "the loop variable of pairs()" if how == "loop" else "`%s`" % luaparse.show(src)),
                       "sylt-compiler/src/preamble.lua:%s" % st.get("line"))
    rep.floor(rule, "indexed stores of library functions (into the given container or a local table)", n, 6)


def presence_is_not_truth(rep, lua, rule="VALUE-SEM"):
    """`false` is a value: an element, field or payload read out of a value the program handed over (`o[i + 1]`, `o[i]`) is
    *present* when it is not nil.  Its truth must not stand for its presence - `assert(e, ..)`, `if e then`, `e or __NIL`,
    `not e` treat a stored `false` as a missing element: `(7, false)[1]` dies with `index out of range`, `Maybe.Just false`
    comes apart as nil."""
    import c19
    fns = []
    for st in lua.ast["stmts"]:
        if st.get("k") == "Assign":
            for e in st["es"]:
                if isinstance(e, dict) and e.get("k") == "Function":
                    fns.append((luaparse.show(st["targets"][0]), e))
        elif st.get("k") == "LocalFunction":
            fns.append((st["name"], st["func"]))
    n = 0
    bad = []
    for name, f in fns:
        params = set(f["params"])
        taken = {}
        for st in luaparse.walk(f["body"]):
            if st.get("k") == "Local":
                for i_, nm in enumerate(st["names"]):
                    if i_ < len(st["es"]) and st["es"][i_].get("k") == "Index":
                        base = st["es"][i_]
                        while base.get("k") == "Index":
                            base = base["obj"]
                        if base.get("k") == "Name" and base["name"] in params:
                            taken[nm] = st["es"][i_]
        if not taken:
            continue

        def is_taken(t):
            return isinstance(t, dict) and t.get("k") == "Name" and t.get("name") in taken
        for x in luaparse.walk(f["body"]):
            k = x.get("k")
            uses = []
            if k == "If":
                for c, _ in x["clauses"]:
                    if c is not None:
                        uses += list(c19._truth_uses(c))
            elif k in ("While", "Repeat"):
                uses += list(c19._truth_uses(x.get("cond") or x.get("c")))
            elif k == "Call" and x["f"].get("k") == "Name" and x["f"]["name"] == "assert" and x["args"]:
                uses += list(c19._truth_uses(x["args"][0]))
            elif k == "Binop" and x.get("op") in ("and", "or"):
                uses += [x["l"]]
            elif k == "Unop" and x.get("op") == "not":
                uses += [x["e"]]
            for t in uses:
                if is_taken(t):
                    n += 1
                    bad.append((name, t, x))
        n += len(taken)
    seen = set()
    for name, t, x in bad:
        key = "%s|%s|presence-by-truth" % (name, t["name"])
        if key in seen:
            continue
        seen.add(key)
        rep.ob(rule, key, False,
               "%s reads `%s = %s` out of the value it was given and then lets the *truth* of `%s` decide (`%s`): a stored `false` counts "
               "as missing - `(7, false)[1]` dies with `index out of range`, a `Maybe.Just false` comes apart as nil" % (
                   name, t["name"], "..", t["name"], luaparse.show(x)[:60]), "sylt-compiler/src/preamble.lua:%s" % x.get("line"))
    rep.ob(rule, "presence-is-compared-with-nil", not bad,
           "no runtime function lets the truth of an element it read stand for its presence (%d reads examined)" % n, sites=n)
    rep.floor(rule, "elements read out of given values", n, 3)


def values_compared_structurally(rep, lua, rule="VALUE-SEM"):
    """Keys and elements are values: `(1, 2)` written twice is one key.  The runtime compares them with `==` (the metamethods)
    or through their normalised form; `rawequal` / `rawget` compare tables by *identity*, which tells two equal tuples apart."""
    bad = []
    for fname, (kind, f) in sorted(lua.globals.items()):
        if kind != "function":
            continue
        for x in luaparse.walk(f["body"]):
            if x.get("k") == "Call" and x["f"].get("k") == "Name" and x["f"]["name"] in ("rawequal",):
                bad.append((fname, x))
    rep.ob(rule, "no-identity-comparison-of-values", not bad,
           "no library function compares values by identity (rawequal)" if not bad else
           "%s compares with `%s`: tables (tuples, lists, blobs) are then equal only when they are the same object - a key written "
           "again (`dict.get(d, (1, 2))` after `dict.update(d, (1, 2), ..)`) is not found" % (bad[0][0], luaparse.show(bad[0][1])),
           "sylt-compiler/src/preamble.lua:%s" % (bad[0][1].get("line") if bad else "-"))


def integer_results(rep, lua, rule="NUM-REP"):
    """`floor` answers an *integer*: its result is printed, and used as a dict / set key (keys are normalised with tostring), as
    the int it is.  On the Lua the tests target (integer and float subtypes) only math.floor gives the integer subtype - `x // 1`
    of a float is the float `2.0`, another key than `2`."""
    g = lua.globals.get("floor")
    ok = False
    how = "not defined"
    if g:
        kind, e = g
        if kind == "alias":
            how = luaparse.show(e)
            ok = how == "math.floor"
        else:
            rets = [x for x in luaparse.walk(e["body"]) if x.get("k") == "Return"]
            how = "; ".join(luaparse.show(r_["es"][0]) if r_["es"] else "nothing" for r_ in rets)
            ok = bool(rets) and all(r_["es"] and r_["es"][0].get("k") == "Call" and luaparse.show(r_["es"][0]["f"]) == "math.floor" for r_ in rets)
    rep.ob(rule, "floor|integer-subtype", ok,
           "floor is math.floor: the result has the integer subtype" if ok else
           "floor is defined as `%s`: for a float argument the result is a float (`2.0`), which prints as \"2.0\" and is a different "
           "dict / set key than the int 2 (`set.contains(set.from_list' [1, 2, 3], floor(2.5))` is false)" % how,
           "sylt-compiler/src/preamble.lua")


def search_first_match(rep, lua, mods, rule="SEARCH"):
    """`find` answers the *first* element (in list order) that satisfies the predicate - that is what the plain model of a
    list does.  An external shaped `[T], (T -> bool) -> Maybe(T)` walks the list with pairs / ipairs; where the predicate holds
    the walk has to end (return / break) - a walk that goes on answers the last match instead."""
    n = 0
    for mname, mod in sorted(mods.items()):
        for name, types in sorted(mod["externals"].items()):
            for t in types:
                if t[0] != "fn" or name not in lua.globals or lua.globals[name][0] != "function":
                    continue
                if not (t[3][0] == "user" and t[3][1].split(".")[-1] == "Maybe"):
                    continue
                preds = [i for i, p_ in enumerate(t[2]) if p_[0] == "fn" and p_[3] == ("bool",) or (p_[0] == "fn" and p_[3][0] == "bool")]
                lists = [i for i, p_ in enumerate(t[2]) if p_[0] == "list"]
                if not preds or not lists:
                    continue
                f = lua.globals[name][1]
                pname = f["params"][preds[0]] if preds[0] < len(f["params"]) else None
                tests = []
                # locals that hold the predicate's verdict (`local hit = p(x)`)
                verdicts = set()
                for st in luaparse.walk(f["body"]):
                    if st.get("k") == "Local":
                        for i_, nm in enumerate(st["names"]):
                            if i_ < len(st["es"]) and any(c.get("k") == "Call" and c["f"].get("k") == "Name" and c["f"]["name"] == pname
                                                          for c in luaparse.walk(st["es"][i_])):
                                verdicts.add(nm)
                for lp in luaparse.walk(f["body"]):
                    if lp.get("k") not in ("ForIn", "ForNum", "While", "Repeat"):
                        continue
                    for x in luaparse.walk(lp["body"]):
                        if x.get("k") != "If":
                            continue
                        for cond, blk in x["clauses"]:
                            if any((c.get("k") == "Call" and c["f"].get("k") == "Name" and c["f"]["name"] == pname) or
                                   (c.get("k") == "Name" and c.get("name") in verdicts) for c in luaparse.walk(cond)):
                                tests.append((x, blk))
                n += 1
                if not tests:
                    rep.ob(rule, "%s.%s|stops-at-the-first-match" % (mname, name), False,
                           "%s is declared as a search (`[T], (T -> bool) -> Maybe(T)`) but no loop of its Lua definition tests the "
                           "predicate: cannot see which match it answers" % name, "sylt-compiler/src/preamble.lua:%s" % f.get("line"))
                    continue
                goes_on = [x for x, blk in tests if not (blk["stmts"] and blk["stmts"][-1].get("k") in ("Return", "Break", "Goto"))]
                rep.ob(rule, "%s.%s|stops-at-the-first-match" % (mname, name), not goes_on,
                       "%s leaves its loop at the first element the predicate accepts" % name if not goes_on else
                       "%s goes on walking the list after the predicate has accepted an element: what it answers is the *last* match "
                       "(`find([1, 2, 3, 4], fn x -> x > 1)` gives Just(4) where the model gives Just(2))" % name,
                       "sylt-compiler/src/preamble.lua:%s" % (goes_on[0].get("line") if goes_on else tests[0][0].get("line")))
    rep.floor(rule, "search externals ([T], (T -> bool) -> Maybe(T))", n, 1)


def aliases(rep, mods):
    n = 0
    for mname, mod in mods.items():
        for a, target in sorted(mod["aliases"].items()):
            n += 1
            rep.ob("ALIASES", "%s.%s" % (mname, a), target in mod["defs"],
                   "std/%s.sy: `%s :: %s` refers to a name declared in that module" % (mname, a, target))
    rep.floor("ALIASES", "wrapper aliases", n, 20)


def _family(lua, prefix):
    return {n: g[1] for n, g in lua.globals.items() if n.startswith(prefix) and g[0] == "function"}


def key_norm(rep, lua):
    for fam, container in (("dict_", "dict"), ("set_", "set")):
        fns = _family(lua, fam)
        norms = {}
        for name, f in sorted(fns.items()):
            if len(f["params"]) < 2:
                continue
            cont, key = f["params"][0], f["params"][1]
            if key in ("f",):
                continue
            for x in luaparse.walk(f["body"]):
                if x.get("k") == "Index" and not x.get("dot") and x["obj"].get("k") == "Name" and x["obj"]["name"] == cont:
                    k = x["key"]
                    mentions = any(y.get("k") == "Name" and y.get("name") == key for y in luaparse.walk(k))
                    if not mentions:
                        continue
                    norms.setdefault(luaparse.show(k).replace(key, "K"), []).append((name, x.get("line")))
        if not norms:
            rep.anchor_missing("keyed accesses in the %s* family" % fam)
            continue
        major = max(norms, key=lambda k: len(norms[k]))
        for form, sites in sorted(norms.items()):
            for name, line in sites:
                rep.ob("KEY-NORM", "%s|%s" % (name, form), form == major,
                       "%s accesses the %s by `%s`; the family's normal form is `%s` (%d sites)%s" % (
                           name, container, form, major, len(norms[major]),
                           "" if form == major else ": an entry stored under the normalised key is never found (e.g. remove after update with a non-string key)"),
                       "sylt-compiler/src/preamble.lua:%s" % line)


def externals_fully_typed(F, rep, mods):
    """An external's declaration is all the checker knows about it.  A generic type of the library written without its
    arguments (`-> Maybe` for `Maybe :: enum(*V)`) leaves the payload type open: whatever the program does with the payload
    is accepted, although the Lua function returns one particular kind of value (as_char: a byte number)."""
    import os
    arity = {}
    for m in sorted(mods):
        text = F.read(os.path.join("std", m + ".sy"))
        for mm in re.finditer(r"^([A-Z][A-Za-z0-9_]*)\s*::\s*(?:blob|enum|externblob)\s*(?:\(([^)]*)\))?", text, flags=re.M):
            arity[mm.group(1)] = len([x for x in (mm.group(2) or "").split(",") if x.strip()])
    n = 0

    def walk_ty(t, out):
        if not isinstance(t, tuple):
            return
        if t[0] == "user":
            out.append(t)
            for a in t[2]:
                walk_ty(a, out)
        elif t[0] == "fn":
            for a in t[2]:
                walk_ty(a, out)
            walk_ty(t[3], out)
        elif t[0] == "list":
            walk_ty(t[1], out)
        elif t[0] == "tuple":
            for a in t[1]:
                walk_ty(a, out)
    for mname in sorted(mods):
        for name, types in sorted(mods[mname]["externals"].items()):
            for t in types:
                users = []
                walk_ty(t, users)
                for u in users:
                    base = u[1].split(".")[-1]
                    if base not in arity or arity[base] == 0:
                        continue
                    n += 1
                    ok = len(u[2]) == arity[base]
                    rep.ob("EXTERNALS", "%s.%s|%s|type-arguments-given" % (mname, name, base), ok,
                           "%s: %s is written with its %d type argument(s)" % (name, base, arity[base]) if ok else
                           "the external `%s` is declared with `%s` without its type argument%s: the checker knows nothing about the "
                           "payload, so `case %s(..) do Just c -> c + \"x\" ..` is accepted whatever the Lua function really returns"
                           % (name, base, "s" if arity[base] > 1 else "", name), "std/%s.sy" % mname)
    rep.floor("EXTERNALS", "generic library types in external signatures", n, 10)


def declared_purity(rep, lua, mods, rule="PURITY-DECL"):
    """`pu` on an external is a promise the checker cannot look behind: pure functions may call it, on constants too.  The Lua
    definition of an external declared `pu` must not store into a table it was given (`l[i] = v`, table.insert(l, ..)); printing
    is not counted (`dbg` is declared pure on purpose, as a tracing aid).  (The other direction - a harmless function declared `fn` - only costs convenience.)"""
    n = 0
    for mname in sorted(mods):
        for name, types in sorted(mods[mname]["externals"].items()):
            g = lua.globals.get(name)
            if not g or g[0] != "function":
                continue
            pure = [t for t in types if t[0] == "fn" and t[1]]
            if not pure:
                continue
            f = g[1]
            n += 1
            params = set(f["params"])
            bad = []
            for x in luaparse.walk(f["body"]):
                if x.get("k") == "Assign":
                    for t in x["targets"]:
                        base = t
                        while base.get("k") == "Index":
                            base = base["obj"]
                        if t.get("k") == "Index" and base.get("k") == "Name" and base["name"] in params:
                            bad.append("stores into its argument (`%s = ..`)" % luaparse.show(t))
                elif x.get("k") == "Call":
                    fn_ = luaparse.show(x["f"])
                    if fn_ in ("table.insert", "table.remove", "table.sort") and x["args"] and \
                            x["args"][0].get("k") == "Name" and x["args"][0]["name"] in params:
                        bad.append("calls %s on its argument" % fn_)
            rep.ob(rule, "%s.%s|pu" % (mname, name), not bad,
                   "%s is declared `pu` and its Lua definition does not store into its arguments" % name if not bad else
                   "%s is declared `pu` but its Lua definition %s: a pure function can change a (constant) list through it - "
                   "`bump :: pu xs: [int] -> int do list.set(xs, 0, get(xs, 0) + 1) .. end` gives 1, then 2" % (name, "; ".join(sorted(set(bad)))),
                   "std/%s.sy" % mname)
    # .. and a `pu` external runs the callbacks it is given: a callback parameter declared `fn` (any purity) lets a pure caller
    # run an impure function through it
    m_ = 0
    for mname in sorted(mods):
        for name, types in sorted(mods[mname]["externals"].items()):
            for t in types:
                if not (t[0] == "fn" and t[1]):
                    continue
                cbs = [p_ for p_ in t[2] if p_[0] == "fn"]
                if not cbs:
                    continue
                m_ += 1
                open_ = [p_ for p_ in cbs if not p_[1]]
                rep.ob(rule, "%s.%s|callbacks-of-a-pu-external-are-pu" % (mname, name), not open_,
                       "%s is declared `pu` and so is every function it is handed" % name if not open_ else
                       "%s is declared `pu` but takes a callback declared `fn`, which in a parameter position means any purity: a pure "
                       "function can run an impure one through it (`count :: pu s -> .. do %s(s, bump) .. end` where bump changes a "
                       "global)" % (name, name), "std/%s.sy" % mname)
    rep.floor(rule, "pu externals that take callbacks", m_, 5)
    rep.floor(rule, "externals declared pu with a Lua definition", n, 15)


def library_values_have_their_fields(F, rep, lua, mods, rule="LIB-VALUE"):
    """A `blob` declared in the library promises fields: `d.f` type-checks and `T { f: .. }` builds a value of the type.  For a
    type whose values are made by a Lua constructor (an external that returns it) the table that constructor builds has to
    have those fields - otherwise the declaration should be an `externblob` (no fields to name, no literal to write)."""
    import os
    n = 0
    for mname in sorted(mods):
        text = F.read(os.path.join("std", mname + ".sy"))
        for mm in re.finditer(r"^([A-Z][A-Za-z0-9_]*)\s*::\s*blob\s*(?:\([^)]*\))?\s*\{([^}]*)\}", text, flags=re.M):
            tname = mm.group(1)
            fields = [x.split(":")[0].strip() for x in re.split(r"[,\n]", mm.group(2)) if ":" in x]
            makers = []
            for name, types in sorted(mods[mname]["externals"].items()):
                for t in types:
                    if t[0] == "fn" and t[3][0] == "user" and t[3][1].split(".")[-1] == tname and \
                            not any(p[0] == "user" and p[1].split(".")[-1] == tname for p in t[2]):
                        makers.append(name)
            for mk in sorted(set(makers)):
                g = lua.globals.get(mk)
                if not g or g[0] != "function":
                    continue
                keys = None
                for x in luaparse.walk(g[1]["body"]):
                    if x.get("k") == "Return" and x["es"]:
                        e = x["es"][0]
                        if e.get("k") == "Call" and luaparse.show(e["f"]) == "setmetatable" and e["args"]:
                            e = e["args"][0]
                        if e.get("k") == "Table":
                            keys = set()
                            for it in e.get("items", e.get("fields", [])):
                                kk = it[0] if isinstance(it, (tuple, list)) else it.get("key")
                                if isinstance(kk, dict) and kk.get("k") in ("String", "Name"):
                                    keys.add(kk.get("v", kk.get("name")))
                if keys is None:
                    continue
                n += 1
                missing = [f_ for f_ in fields if f_ not in keys]
                rep.ob(rule, "%s.%s|made-by-%s|declared-fields-exist" % (mname, tname, mk), not missing,
                       "%s builds a %s with the fields its declaration names" % (mk, tname) if not missing else
                       "`%s` is declared as a blob with the fields %s, but %s() builds it as a table without them: `d.%s` type-checks and "
                       "reads nil, and the literal `%s { .. }` is accepted as a %s although it is not one the library functions can work "
                       "with - the declaration should be an externblob" % (tname, fields, mk, missing[0], tname, tname), "std/%s.sy" % mname)
    rep.ob(rule, "census", True, "%d library blob types made by a Lua constructor compared with that constructor" % n, sites=n)


def keyed_table_size(rep, lua, mods):
    """Lua's length operator `#t` answers a *border* of the array part; for a table that is keyed by arbitrary values
    (a dict or a set) it is not the number of entries - it is 0 for string keys and some border when integer keys happen to
    start at 1.  No function that an external of std/dict.sy or std/set.sy hands a Dict / Set to may apply `#` to it."""
    n = 0
    for mname in ("dict", "set"):
        for name, types in sorted(mods[mname]["externals"].items()):
            g = lua.globals.get(name)
            if not g or g[0] != "function":
                continue
            f = g[1]
            for t in types:
                if t[0] != "fn":
                    continue
                for i, pt in enumerate(t[2]):
                    if pt[0] == "user" and pt[1] in ("Dict", "Set") and i < len(f["params"]):
                        pname = f["params"][i]
                        n += 1
                        bad = [x for x in luaparse.walk(f["body"]) if x.get("k") == "Unop" and x.get("op") == "#"
                               and x["e"].get("k") == "Name" and x["e"]["name"] == pname]
                        rep.ob("KEYED-SIZE", "%s.%s|%s" % (mname, name, pname), not bad,
                               "%s never applies the length operator to the %s it is given" % (name, pt[1].lower()) if not bad else
                               "%s applies `#` to its %s parameter `%s`: for a keyed table that is a border of the integer keys, not the "
                               "number of entries (`set.from_list [1, 2, 3]`, `set.remove(s, 2)`, `set.len(s)` answers 1 or 3, never 2)"
                               % (name, pt[1].lower(), pname), "sylt-compiler/src/preamble.lua:%s" % (bad[0].get("line") if bad else f.get("line")))
    # .. nor the metamethods of the dict / set metatables (their operands are such tables): `#a == #b` is `0 == 0` there
    import c19
    nm = 0
    for (meta, name), f in sorted(c19.meta_functions(lua.ast).items()):
        if not re.search(r"(SET|DICT)", meta):
            continue
        for pname in f["params"]:
            nm += 1
            bad = [x for x in luaparse.walk(f["body"]) if x.get("k") == "Unop" and x.get("op") == "#"
                   and x["e"].get("k") == "Name" and x["e"]["name"] == pname]
            rep.ob("KEYED-SIZE", "%s.%s|%s" % (meta, name, pname), not bad,
                   "%s.%s never applies the length operator to its operand `%s`" % (meta, name, pname) if not bad else
                   "%s.%s applies `#` to `%s`, a table keyed by arbitrary values: the length is 0 (or a border), so a size comparison "
                   "built on it holds for any two sets - `{1} == {1, 2}` when only one containment loop remains" % (meta, name, pname),
                   "sylt-compiler/src/preamble.lua:%s" % (bad[0].get("line") if bad else f.get("line")))
    # equality of keyed tables is mutual containment: one loop over each operand's entries
    for (meta, name), f in sorted(c19.meta_functions(lua.ast).items()):
        if name != "__eq" or not re.search(r"(SET|DICT)", meta) or len(f["params"]) != 2:
            continue
        a_, b_ = f["params"]
        over = [luaparse.show(l["es"][0]) for l in luaparse.walk(f["body"]) if l.get("k") == "ForIn" and l.get("es")]
        both = ("pairs(%s)" % a_) in over and ("pairs(%s)" % b_) in over
        rep.ob("KEYED-EQ", "%s.__eq|both-directions" % meta, both,
               "%s.__eq walks the entries of both operands (%s)" % (meta, over) if both else
               "%s.__eq walks %s only: equality degrades to `is a subset of` - {1} == {1, 2}, and == is no longer symmetric" % (meta, over or "nothing"),
               "sylt-compiler/src/preamble.lua:%s" % f.get("line"))
    rep.floor("KEYED-SIZE", "operands of dict / set metamethods", nm, 6)
    rep.floor("KEYED-SIZE", "dict / set parameters of externals", n, 12)


def _normalises_with_tostring(lua, form):
    """`tostring(K)`, or `h(K)` with h a global helper that calls tostring on its parameter"""
    if "tostring(K)" in form:
        return True
    m = re.match(r"^([A-Za-z_][A-Za-z0-9_]*)\(K\)$", form)
    if m and lua.globals.get(m.group(1), (None,))[0] == "function":
        h = lua.globals[m.group(1)][1]
        if h["params"]:
            return any(c.get("k") == "Call" and c["f"].get("k") == "Name" and c["f"]["name"] == "tostring" and c["args"] and
                       c["args"][0].get("k") == "Name" and c["args"][0]["name"] == h["params"][0] for c in luaparse.walk(h["body"]))
    return False


def key_injective(rep, lua):
    """dict and set store entries under `tostring(key)`.  Two different keys of an allowed key type must not normalise to
    the same string.  For tuples tostring is __TUPLE_META.__tostring: it has to delimit its elements unambiguously -
    joining `tostring(a[x])` with ", " does not when an element is a string that contains ", "."""
    ast = luaparse.parse(lua.src) if hasattr(lua, "src") else None
    f = None
    for st in luaparse.walk(lua.ast if hasattr(lua, "ast") else ast):
        if isinstance(st, dict) and st.get("k") == "Assign" and len(st.get("targets", [])) == 1:
            t = st["targets"][0]
            if t.get("k") == "Index" and luaparse.show(t) == "__TUPLE_META.__tostring" and st["es"][0].get("k") == "Function":
                f = st["es"][0]
    uses_tostring = any(_normalises_with_tostring(lua, form) for fam in ("dict_", "set_") for form in _key_forms(lua, fam))
    if f is None or not uses_tostring:
        rep.anchor_missing("__TUPLE_META.__tostring / tostring(key) normalisation")
        return
    raw_elem = False
    quoted = False
    for c in luaparse.walk(f["body"]):
        if c.get("k") == "Call" and c["f"].get("k") == "Name" and c["f"]["name"] == "tostring":
            raw_elem = True
        if c.get("k") == "Call" and luaparse.show(c["f"]) in ("string.format", "__KEY") :
            quoted = True
    rep.ob("KEY-NORM", "tuple-keys|injective", (not raw_elem) or quoted,
           "tuple keys are normalised with an unambiguous encoding of their elements" if (not raw_elem) or quoted else
           "dict and set normalise a key with tostring(), and __TUPLE_META.__tostring joins the raw tostring of the elements with "
           "\", \": the tuples (\"a, b\", \"c\") and (\"a\", \"b, c\") are one key (set.add then set.contains of the other "
           "is true; dict.update of one overwrites the other). Numbers collide as well on Lua 5.1 (tostring uses %.14g).",
           "sylt-compiler/src/preamble.lua:%s" % f.get("line"))


def key_not_coerced(rep, lua):
    """the key under which an element is stored keeps distinct strings distinct: `tonumber` (or arithmetic on the key) reads
    "7", "007", "7.0" and "0x7" as one number"""
    n = 0
    for fam in ("dict_", "set_"):
        for form in sorted(_key_forms(lua, fam)):
            n += 1
            bodies = [form]
            m = re.match(r"^([A-Za-z_][A-Za-z0-9_]*)\(K\)$", form)
            if m and lua.globals.get(m.group(1), (None,))[0] == "function":
                bodies.append(luaparse.show(lua.globals[m.group(1)][1]["body"]) if False else
                              " ".join(luaparse.show(x) for x in luaparse.walk(lua.globals[m.group(1)][1]["body"]) if x.get("k") == "Call"))
            coerces = any("tonumber(" in b_ or "math.tointeger(" in b_ for b_ in bodies)
            rep.ob("KEY-NORM", "%s|%s|strings-stay-distinct" % (fam.rstrip("_"), form), not coerces,
                   "the %s key `%s` does not read strings as numbers" % (fam.rstrip("_"), form) if not coerces else
                   "the %s key `%s` goes through tonumber(): the strings \"7\", \"007\", \"7.0\" and \"0x7\" are one key - a Set(str) of "
                   "them has length 1, and `contains \"07\"` is true although it was never added" % (fam.rstrip("_"), form),
                   "sylt-compiler/src/preamble.lua")
    rep.floor("KEY-NORM", "key forms examined for coercion", n, 2)


def _key_forms(lua, fam):
    forms = set()
    for name, f in _family(lua, fam).items():
        if len(f["params"]) < 2:
            continue
        cont, key = f["params"][0], f["params"][1]
        for x in luaparse.walk(f["body"]):
            if x.get("k") == "Index" and not x.get("dot") and x["obj"].get("k") == "Name" and x["obj"]["name"] == cont:
                if any(y.get("k") == "Name" and y.get("name") == key for y in luaparse.walk(x["key"])):
                    forms.add(luaparse.show(x["key"]).replace(key, "K"))
    return forms


def constructors(rep, lua):
    for fam, ctor in (("dict_", "dict_new"), ("set_", "set_new")):
        for name, f in sorted(_family(lua, fam).items()):
            if name == ctor:
                continue
            made = set()
            for x in luaparse.walk(f["body"]):
                if x.get("k") == "Call" and x["f"].get("k") == "Name" and x["f"]["name"] in ("dict_new", "set_new", "__DICT", "__SET", "__LIST"):
                    made.add(x["f"]["name"])
                if x.get("k") == "Call" and luaparse.show(x["f"]) == "setmetatable":
                    made.add("setmetatable")
            if made:
                rep.ob("CONSTRUCTOR", name, made == {ctor},
                       "%s builds its result with %s (family constructor: %s)%s" % (
                           name, sorted(made), ctor, "" if made == {ctor} else
                           ": the result carries another family's metatable, so it neither prints nor compares like the values "
                           "the family's other functions produce"))
    for name in ("list_map", "list_filter", "as_chars", "split"):
        g = lua.globals.get(name)
        if g and g[0] == "function":
            rets = [luaparse.show(r["es"][0]["f"]) if r["es"] and r["es"][0].get("k") == "Call" else "?" for r in luaparse.walk(g[1]["body"]) if r.get("k") == "Return" and r["es"]]
            rep.ob("CONSTRUCTOR", name, rets == ["__LIST"], "%s returns a __LIST (%s)" % (name, rets))


def entries_change_through_the_primitives(rep, lua, rule="KEY-NORM"):
    """What a dict or a set holds is changed by four functions - dict_update / dict_remove, set_add / set_remove; every other library
    function that builds or changes one (from_list, map, filter, union ..) does it by calling those, once per element and whatever is
    there already.  An index store of its own in another function has its own idea of the key and of what happens to an entry that
    exists (`from_list [("a", 1), ("a", 3)]` keeping the first pair where `update` twice keeps the last)."""
    PRIM = {"dict_": {"dict_update", "dict_remove"}, "set_": {"set_add", "set_remove"}}
    n = 0
    for fam in ("dict_", "set_"):
        for name, f in sorted(_family(lua, fam).items()):
            w = [luaparse.show(t) for x in luaparse.walk(f["body"]) if x.get("k") == "Assign" for t in x["targets"] if t.get("k") == "Index"
                 and not (t["obj"].get("k") == "Name" and t["obj"]["name"] in _plain_locals(f))]
            if name in PRIM[fam]:
                n += 1
                continue
            n += 1
            rep.ob(rule, "%s|stores-through-the-primitives" % name, not w,
                   "%s changes no entry itself" % name if not w else
                   "%s stores into the table itself (`%s = ..`) instead of going through %s: which key an element gets and what happens "
                   "to an entry that is there already is then decided twice - a list that names a key twice, or a key the primitive would "
                   "normalise, gives another dict / set than the same elements added one by one" % (name, w[0], sorted(PRIM[fam])))
        for prim in sorted(PRIM[fam]):
            rep.ob(rule, "%s|defined" % prim, prim in _family(lua, fam), "%s is defined" % prim)
    for name in ("dict_from_list", "set_from_list"):
        g = lua.globals.get(name)
        if not (g and g[0] == "function"):
            rep.ob(rule, "%s|every-element" % name, False, "%s is not defined" % name)
            continue
        prim = "dict_update" if name.startswith("dict") else "set_add"
        loops = [x for x in luaparse.walk(g[1]["body"]) if x.get("k") in ("ForIn", "ForNum", "For", "While")]
        ok = False
        for lp in loops:
            body = lp.get("body") or []
            if isinstance(body, dict):
                body = body.get("stmts") or body.get("body") or []
            body = [st for st in body if isinstance(st, dict)]
            calls = [st for st in body if any(y.get("k") == "Call" and y["f"].get("k") == "Name" and y["f"]["name"] == prim for y in luaparse.walk(st))
                     and st.get("k") not in ("If", "While", "ForIn", "ForNum")]
            ok = ok or bool(calls)
        rep.ob(rule, "%s|every-element" % name, ok,
               "%s hands every element to %s, unconditionally" % (name, prim) if ok else
               "%s does not hand every element of the list to %s on every turn of its loop: an element can be left out (a key that is "
               "there already) or stored another way" % (name, prim))
    rep.floor(rule, "dict / set functions examined for stores", n, 10)


def _plain_locals(f):
    """names of locals of f that are bound to a plain table constructor `{}` (scratch tables, not family values)"""
    out = set()
    for x in luaparse.walk(f["body"]):
        if x.get("k") == "Local" and x.get("es") and x["es"][0].get("k") == "Table":
            for nm in x.get("names", []):
                out.add(nm if isinstance(nm, str) else nm.get("name"))
    return out


def maybe_shape(F, rep, lua):
    n = 0
    for name, (kind, f) in sorted(lua.globals.items()):
        if kind != "function":
            continue
        i = 0
        for x in luaparse.walk(f["body"]):
            if x.get("k") == "Call" and x["f"].get("k") == "Name" and x["f"]["name"] == "__VARIANT":
                n += 1
                i += 1
                t = x["args"][0] if x["args"] else {}
                items = t.get("items", []) if t.get("k") == "Table" else []
                tag = items[0][2].get("v") if items and items[0][2].get("k") == "String" else None
                key = "%s|%s#%d" % (name, tag, i)
                if tag == "None":
                    payload = items[1][2] if len(items) > 1 else None
                    ok = payload is not None and payload.get("k") == "Name" and payload["name"] == "__NIL"
                    rep.ob("MAYBE-SHAPE", key, ok,
                           "%s builds None with payload `%s`; the compiler emits Maybe.None as __VARIANT{ \"None\", __NIL }%s" % (
                               name, luaparse.show(payload) if payload else "-", "" if ok else
                               ": a library None is not == to a None written in source (variants compare tag and payload)"),
                           "sylt-compiler/src/preamble.lua:%s" % x.get("line"))
                elif tag == "Just":
                    rep.ob("MAYBE-SHAPE", key, len(items) == 2, "%s builds Just with one payload" % name, "sylt-compiler/src/preamble.lua:%s" % x.get("line"))
                else:
                    rep.ob("MAYBE-SHAPE", key, False, "%s builds a variant with tag %r" % (name, tag))
    rep.floor("MAYBE-SHAPE", "__VARIANT constructions in preamble.lua", n, 8)
    # compiler side: IR::Nil -> __NIL and IR::Variant -> __VARIANT{ "tag", payload }
    import irp
    import luatpl
    T = luatpl.LuaTemplates(F)
    s_nil, s_var = luatpl.summary(T, "Nil"), luatpl.summary(T, "Variant")
    t_nil = luatpl.render(s_nil["value"]) if s_nil.get("value") is not None else None
    t_var = luatpl.render(s_var["value"]) if s_var.get("value") is not None else None
    rep.ob("MAYBE-SHAPE", "compiler|Nil", t_nil == "__NIL", "the compiler writes nil payloads as __NIL (`%s`)" % t_nil)
    rep.ob("MAYBE-SHAPE", "compiler|Variant", t_var == '__VARIANT{ "{raw:1}", {expand:2} }' and not [g_ for g_ in T.guarded.get("Variant", [])],
           "the compiler writes variants as __VARIANT{ \"Tag\", payload }" if t_var == '__VARIANT{ "{raw:1}", {expand:2} }' and not T.guarded.get("Variant") else
           "the compiler does not write every variant as __VARIANT{ \"Tag\", payload } (%s): the library builds Maybe.None as "
           "__VARIANT({\"None\", __NIL}), and __VARIANT_META.__eq compares tag *and* payload - a None from list.get is then not == to a "
           "None written in the program" % (t_var if t_var is not None else "the arm writes different texts for different variants"))
    # variant equality compares tag and payload
    g = lua.ast
    eq = None
    for s in g["stmts"]:
        if s["k"] == "Assign" and luaparse.show(s["targets"][0]) == "__VARIANT_META.__eq":
            eq = s["es"][0]
    ok = False
    if eq is not None:
        r = [x for x in luaparse.walk(eq["body"]) if x.get("k") == "Return"]
        ok = len(r) == 1 and luaparse.show(r[0]["es"][0]) in ("((a[1] == b[1]) and (a[2] == b[2]))",)
    rep.ob("MAYBE-SHAPE", "__VARIANT_META.__eq", ok, "variants are equal iff tag and payload are equal")


def index_base(rep, lua):
    # functions taking (l, i, ..): every l[...] indexed through i adds 1
    for name in ("list_get", "list_set"):
        g = lua.globals.get(name)
        if not g or g[0] != "function":
            rep.anchor_missing("function " + name)
            continue
        f = g[1]
        l, i = f["params"][0], f["params"][1]
        forms = []
        for x in luaparse.walk(f["body"]):
            if x.get("k") == "Index" and not x.get("dot") and x["obj"].get("k") == "Name" and x["obj"]["name"] == l:
                forms.append(luaparse.show(x["key"]))
        rep.ob("INDEX-BASE", name, bool(forms) and all(fm == "(%s + 1)" % i for fm in forms),
               "%s addresses element i of a Sylt list as l[%s] (0-based index + 1)" % (name, forms))
    g = lua.globals.get("list_pop")
    if g and g[0] == "function":
        l = g[1]["params"][0]
        calls = [luaparse.show(c) for c in luaparse.walk(g[1]["body"]) if c.get("k") == "Call" and c["f"].get("k") == "Name" and c["f"]["name"] in ("list_get", "list_set")]
        ok = len(calls) == 2 and all("(#%s - 1)" % l in c for c in calls)
        rep.ob("INDEX-BASE", "list_pop", ok, "list_pop reads and clears the element at length - 1 (%s)" % calls)
    g = lua.globals.get("list_prepend")
    if g and g[0] == "function":
        calls = [luaparse.show(c) for c in luaparse.walk(g[1]["body"]) if c.get("k") == "Call"]
        rep.ob("INDEX-BASE", "list_prepend", calls == ["list_push(l, 1, v)"], "list_prepend inserts at Lua position 1 (%s)" % calls)
    for name in ("__INDEX", "__ASSIGN_INDEX"):
        g = lua.globals.get(name)
        if g and g[0] == "function":
            o, i = g[1]["params"][0], g[1]["params"][1]
            # inside the tuple/list branch the key is i + 1
            found = False
            for st in luaparse.walk(g[1]["body"]):
                if st.get("k") == "If":
                    for cond, blk in st["clauses"]:
                        ct = luaparse.show(cond)
                        if "'list'" in ct:
                            keys = [luaparse.show(x["key"]) for x in luaparse.walk(blk) if x.get("k") == "Index" and not x.get("dot") and luaparse.show(x["obj"]) == o]
                            found = bool(keys) and all(k == "(%s + 1)" % i for k in keys)
            rep.ob("INDEX-BASE", name, found, "%s addresses tuple/list element i at Lua position i + 1" % name)


def _lua_eval(e, env):
    """evaluate a Lua condition over integers: names from env, `#name` from env['#name']"""
    k = e.get("k")
    if k == "Number":
        return int(float(e["v"]))
    if k == "Name":
        return env[e["name"]]
    if k == "Const":
        return {"true": True, "false": False, "nil": None}[e["v"]]
    if k == "Paren":
        return _lua_eval(e["e"], env)
    if k == "Unop":
        if e["op"] == "#":
            return env["#" + luaparse.show(e["e"])]
        v = _lua_eval(e["e"], env)
        return (not v) if e["op"] == "not" else -v
    if k == "Binop":
        op = e["op"]
        if op == "and":
            l = _lua_eval(e["l"], env)
            return _lua_eval(e["r"], env) if l else l
        if op == "or":
            l = _lua_eval(e["l"], env)
            return l if l else _lua_eval(e["r"], env)
        l, r = _lua_eval(e["l"], env), _lua_eval(e["r"], env)
        return {"<": lambda: l < r, ">": lambda: l > r, "<=": lambda: l <= r, ">=": lambda: l >= r, "==": lambda: l == r,
                "~=": lambda: l != r, "+": lambda: l + r, "-": lambda: l - r, "*": lambda: l * r}[op]()
    raise KeyError(k)


def index_bounds(rep, lua):
    """a guard on a Sylt index must let every valid index through: for a list of n >= 1 elements the guard is evaluated
    at i = 0 and i = n - 1 (the conditions are linear in i and #l, so the two ends of the range decide it)"""
    for name in ("list_set", "list_get"):
        g = lua.globals.get(name)
        if not g or g[0] != "function":
            continue
        f = g[1]
        l, i = f["params"][0], f["params"][1]
        n_guards = 0
        for st in luaparse.walk(f["body"]):
            if st.get("k") != "If":
                continue
            cond = st["clauses"][0][0]
            names = {x["name"] for x in luaparse.walk(cond) if x.get("k") == "Name"}
            if i not in names:
                continue
            # the guarded block must be the one that touches l[i+1]
            touches = any(x.get("k") == "Index" and luaparse.show(x["obj"]) == l for x in luaparse.walk(st["clauses"][0][1]))
            if not touches:
                continue
            n_guards += 1
            bad = []
            for n in (1, 2, 5):
                for iv in (0, n - 1):
                    try:
                        if not _lua_eval(cond, {i: iv, "#" + l: n}):
                            bad.append((n, iv))
                    except (KeyError, TypeError):
                        bad.append(("?", "?"))
            # a guarded *write* must also keep every invalid index out: storing at l[0] (i = -1) or past the end leaves a
            # stray element that #l, pairs() and the printer disagree about
            writes = any(x.get("k") == "Assign" and any(t.get("k") == "Index" and luaparse.show(t["obj"]) == l for t in x["targets"])
                         for x in luaparse.walk(st["clauses"][0][1]))
            # .. and so must a guarded read that is wrapped as `Just` without looking at it: l[0] (i = -1) is nil, `Just nil` is not None
            wraps = any(x.get("k") == "Table" and "Just" in luaparse.show(x) for x in luaparse.walk(st["clauses"][0][1]))
            if writes or wraps:
                let_in = []
                for n in (1, 2, 5):
                    for iv in (-1, n):
                        try:
                            if _lua_eval(cond, {i: iv, "#" + l: n}):
                                let_in.append((n, iv))
                        except (KeyError, TypeError):
                            let_in.append(("?", "?"))
                rep.ob("INDEX-BOUNDS", "%s|guard-excludes-invalid" % name, not let_in,
                       "%s %s under `%s`; invalid indices let through (length, index): %s" % (name, "writes" if writes else "wraps the element as Just", luaparse.show(cond), let_in or "none"),
                       "sylt-compiler/src/preamble.lua:%s" % st.get("line"))
            rep.ob("INDEX-BOUNDS", "%s|guard" % name, not bad,
                   "%s guards its access with `%s`; valid indices rejected (length, index): %s" % (name, luaparse.show(cond), bad or "none"),
                   "sylt-compiler/src/preamble.lua:%s" % st.get("line"))
        rep.ob("INDEX-BOUNDS", "%s|census" % name, True, "%d index guard(s) in %s evaluated at both ends of the valid range" % (n_guards, name), sites=n_guards)


def random_interval(rep, lua, rule="INDEX-BOUNDS"):
    """math.random(m, n) raises `interval is empty` when n < m: an interval that ends at `#l - 1` is empty for the empty list,
    so the call sits under a test of the list's length (the declared result is a Maybe: the empty list has an answer)"""
    n = 0
    for name, g in sorted(lua.globals.items()):
        if g[0] != "function":
            continue
        f = g[1]
        for x in luaparse.walk(f["body"]):
            if x.get("k") == "Call" and luaparse.show(x["f"]) == "math.random" and len(x["args"]) == 2:
                hi = luaparse.show(x["args"][1])
                ps = [p_ for p_ in f["params"] if "#%s" % p_ in hi]
                if not ps:
                    continue
                n += 1
                guarded = any(i.get("k") == "If" and any(c is not None and "#%s" % ps[0] in luaparse.show(c) for c, _ in i["clauses"])
                              and (i.get("line") or 0) <= (x.get("line") or 0) for i in luaparse.walk(f["body"]))
                rep.ob(rule, "%s|random-interval-not-empty" % name, guarded,
                       "%s draws from 0..#%s-1 only after looking at the length" % (name, ps[0]) if guarded else
                       "%s calls math.random(%s, %s) without looking at the length of `%s`: for the empty list the interval is empty and "
                       "Lua raises an error, although the function is declared to answer a Maybe" % (
                           name, luaparse.show(x["args"][0]), hi, ps[0]), "sylt-compiler/src/preamble.lua:%s" % x.get("line"))
    rep.ob(rule, "random-intervals|census", True, "%d math.random(m, n) calls with a bound taken from a list's length" % n, sites=n)


def held_across_callback(rep, lua, leaks, rule="GLOBAL-LEAK"):
    """an undeclared (global) temporary of a library function is shared by all its activations.  That is harmless while
    the value is consumed before anything else can run, and a bug when a *callback* runs between the assignment and a
    later use: a nested call of the same library function from inside the callback (map inside map) overwrites it."""
    by_fn = {}
    for fn_, var, line in leaks:
        by_fn.setdefault(fn_, set()).add(var)
    n = 0
    for fn_, vars_ in sorted(by_fn.items()):
        f = lua.globals[fn_][1]
        cbs = set(f["params"])
        # linearise: (kind, name, in_loop_id) events in program order
        events = []

        def walk_block(b, loop):
            for st in b["stmts"]:
                walk_stmt(st, loop)

        def uses(e, loop):
            for x in luaparse.walk(e):
                if isinstance(x, dict) and x.get("k") == "Call" and x["f"].get("k") == "Name" and x["f"]["name"] in cbs:
                    events.append(("call", x["f"]["name"], loop))
                if isinstance(x, dict) and x.get("k") == "Name" and x["name"] in vars_:
                    events.append(("read", x["name"], loop))

        def walk_stmt(st, loop):
            k = st["k"]
            if k == "Assign":
                for e in st["es"]:
                    uses(e, loop)
                for t in st["targets"]:
                    if t["k"] == "Name" and t["name"] in vars_:
                        events.append(("write", t["name"], loop))
                    else:
                        uses(t, loop)
            elif k in ("ForIn", "ForNum", "While", "Repeat"):
                for key in ("es", "start", "stop", "step", "cond"):
                    if st.get(key) is not None:
                        uses(st[key], loop)
                walk_block(st["body"], id(st))
            elif k == "If":
                for c, b in st["clauses"]:
                    uses(c, loop)
                    walk_block(b, loop)
                if st.get("els"):
                    walk_block(st["els"], loop)
            elif k == "Do":
                walk_block(st["body"], loop)
            else:
                uses({kk: vv for kk, vv in st.items() if kk != "k"}, loop)
        walk_block(f["body"], None)
        for v in sorted(vars_):
            n += 1
            bad = False
            for i, (k1, n1, l1) in enumerate(events):
                if k1 != "write" or n1 != v:
                    continue
                called = False
                for k2, n2, l2 in events[i + 1:]:
                    if k2 == "call":
                        called = True
                    elif k2 == "write" and n2 == v and l2 == l1:
                        break
                    elif k2 == "read" and n2 == v and called:
                        bad = True
                # a write outside a loop whose reads and callback calls are inside one: held for the whole loop
                if l1 is None and any(k2 == "call" and l2 is not None for k2, n2, l2 in events[i + 1:]) and \
                        any(k2 == "read" and n2 == v and l2 is not None for k2, n2, l2 in events[i + 1:]):
                    bad = True
            rep.ob(rule, "%s|%s|not-held-across-callback" % (fn_, v), not bad,
                   ("the global temporary `%s` of %s is consumed before a callback can run" % (v, fn_)) if not bad else
                   ("%s keeps its working value in the undeclared global `%s` while it calls the user's callback: a nested call "
                    "of %s from inside the callback (map over a list of lists) overwrites it and the outer call continues with the "
                    "inner call's table" % (fn_, v, fn_)), "sylt-compiler/src/preamble.lua")
    rep.floor(rule, "global temporaries of library functions", n, 3)


def global_leak(rep, lua):
    """assignments to undeclared names inside functions"""
    leaks = []
    for name, (kind, f) in sorted(lua.globals.items()):
        if kind != "function":
            continue
        declared = set(f["params"])

        def scan(block, declared):
            declared = set(declared)
            for s in block["stmts"]:
                k = s["k"]
                if k == "Local":
                    declared |= set(s["names"])
                elif k == "LocalFunction":
                    declared.add(s["name"])
                elif k == "Assign":
                    for t in s["targets"]:
                        if t["k"] == "Name" and t["name"] not in declared and t["name"] not in lua.globals:
                            leaks.append((name, t["name"], s.get("line")))
                elif k in ("ForNum",):
                    scan(s["body"], declared | {s["var"]})
                elif k == "ForIn":
                    scan(s["body"], declared | set(s["names"]))
                elif k in ("While", "Repeat", "Do"):
                    scan(s["body"], declared)
                elif k == "If":
                    for c, b in s["clauses"]:
                        scan(b, declared)
                    if s.get("els"):
                        scan(s["els"], declared)
        scan(f["body"], declared)
    held_across_callback(rep, lua, leaks)
    for fn_, var, line in leaks:
        rep.info("accidental global: %s assigns the undeclared name `%s` (preamble.lua:%s)" % (fn_, var, line))
    rep.ob("GLOBAL-LEAK", "census", True, "%d assignments to undeclared names inside library functions (information)" % len(leaks), sites=len(leaks))
