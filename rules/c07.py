"""C07 — the compiler is total: phase contracts behind every unreachable!/panic!/assert, guarded recursion
over the type graph, panic census (DESIGN §4 C07)."""
import re

from hir import (nodes, walk, fn_body, callee, call_args, last, line_of, peel, peel_clone, pp, norm_path, pat_alternatives,
                 pat_variant, pat_bindings, pat_is_catchall, pat_strip, is_panic_call, panic_macro, diverges)
from engines import matches_on, arm_alternatives, ty_is, strip_ty
from flow import Flow, uncond_nodes
import tc
import pipe
import irp
import c13

P = "sylt_parser::"
NR = "sylt_compiler::name_resolution::"
R = NR + "Resolver::"
TCP = "sylt_compiler::typechecker::TypeChecker::"
CG = "sylt_compiler::intermediate::IRCodeGen::"
SK = P + "statement::StatementKind"
S = NR + "Statement"
E = NR + "Expression"
CRATES = ["sylt_parser", "sylt_compiler", "sylt_common", "sylt_tokenizer"]

EXPLANATION = (
    "Decides: (CONTRACT) every explicit divergence in the parser / compiler (unreachable!, panic!, assert!, the unwraps that "
    "encode a phase assumption) is matched with the producer-side fact that makes it unreachable - K1 nested statement lists "
    "never hold type declarations / externals / imports (a filter in the parser on every nested statement) and K1' top-level "
    "lists hold only declarations; K2 BinOp::Nop never appears in an expression; K3 assignment targets and ops reaching the "
    "lowering are the ones can_assign / the Op map let through; K4 the Resolved types handled by the checker are the ones "
    "the parser constructs; K5 definition() is only called on Definition nodes; K6 a constant index is an int literal; K7 "
    "ty_assignable only returns UserType; K8 every error vector that .help() is applied to is non-empty and of the variant "
    "the module builds; K9 the lowering of a function literal starts with IR::Function; K10 the start lookup of the lowering "
    "uses the predicate solve() already checked; K11-K13 the parser's second-match / lookahead unreachables repeat the token "
    "set of the first match; K14 detail_if_error! only sees syntax errors; K15 the module list is non-empty and unique; K16 "
    "the path of the main file may have no parent directory; (GUARD) every function that recurses along type-graph edges "
    "consults a visited set before descending (unification has no occurs check, so the graph may be cyclic); (UNION-FIND) "
    "every write of a union-find parent link is dominated by a test that the two nodes differ or happens during path "
    "compression, so find() cannot cycle; (CENSUS) all "
    "panic-capable sites of the four crates are enumerated and classified (contract / guarded / unreviewed) as evidence."
    " (K10 absent=>Err) solve() returns an error when no global `start` exists, which is what keeps the lowering's `.find(..).unwrap()` from meeting None."
    " (BACKTRACK) no parsing function re-parses, from the same cursor, input whose first parse may already have contained the enclosing construct (one known finding: the assignment probe of statement(), exponential in the nesting depth of call statements)."
    " (VEC-BOUNDS) the same interpretation tracks the least length of vectors the parser builds and the flags derived from token tests: a `remove(0)` is only reached with an element to remove."
    ' (UNSIGNED-SUB) every unsigned subtraction is listed with the invariant that keeps it from underflowing, or saturates; (GUARD guard-key-is-stable / output-size-bounded) a visited-set guard is not defeated by nodes created during the recursion, and unfolding the type graph into a tree is bounded (two known findings).'
    " (PROGRESS) by abstract interpretation of sylt-parser (cursor position relative to the loop head: same / further / strictly further; what is known about the token under the cursor; summaries per parsing function as a greatest fixed point): every loop driven by a token cursor advances it strictly on every path back to its head - at the latest after two more iterations, which is how the error-recovery loops of module() and block() work - and is left when the cursor is at the end of the input; callbacks handed to the generic list parser never move the cursor backwards."
    " (CURSOR-TOTAL) the cursor is not bounded by the number of tokens, so tokens/spans are read through total accessors only; (RE-CHECK) no function of the checker, the resolver, the lowering or the dependency fold visits a node and one of its parts twice on one path - the 2^depth blow-up of blocks ending in blocks; (VISIT-ONCE) the loader marks a file visited before anything can skip past the mark, so import cycles end; recursion that hands the cursor on unchanged is discharged structurally (descent into a part of the function's own parameter) or by the item-callback obligation."
    ' (CENSUS unwraps-reviewed) every unwrap / expect outside the phase contracts is in a reviewed table keyed by function and expression shape, with the reason why it cannot fail.'
    ' (GUARD marks-before-recursing) a guarded walk enters the node into its visited set before it recurses into the components.'
)
UNDECIDED = ("absence of panics at the unreviewed census sites, arithmetic overflow, native stack depth on deeply nested input, "
             "loops of the parser that are not driven by a cursor and "
             "are not in the reviewed table, termination of the type checker in general.")
# (recursion of the parser without consuming input is decided since session 4: PROGRESS|recursion|*)

MANIFEST = dict(
    text=EXPLANATION + " Not decided: " + UNDECIDED,
    technique="producer/consumer contract agreement for diverging arms (constructor census + filter extraction) + visited-set rule for type-graph recursion + panic-site census over resolved HIR",
)


def run(F, rep, tier):
    rep.explanation = EXPLANATION
    rep.undecided = UNDECIDED
    contracts = {}
    k1(F, rep, contracts)
    k2_k3(F, rep, contracts)
    k4(F, rep, contracts)
    k5_k7(F, rep, contracts)
    k8(F, rep, contracts)
    k9_k10(F, rep, contracts)
    k11_k14(F, rep, contracts)
    k15_k16(F, rep, contracts)
    guard(F, rep)
    union_find(F, rep)
    minted_type_ids(F, rep, contracts)
    # the tokenizer's `char_at_byte[i].unwrap()`: Some exactly at the byte offsets where a character starts (and at the
    # end) - which is what the unit rules of C17 establish for every index used
    token_callbacks_cannot_panic(F, rep)
    import positions
    before = len(rep.obs)
    positions.unit_rules(F, rep, "UNIT")
    if all(o["ok"] for o in rep.obs[before:]):
        tk = F.fns.get("sylt_tokenizer::string_to_tokens")
        if tk is not None:
            for x in nodes(fn_body(tk)):
                if x.get("k") == "Index" or (x.get("k") == "MethodCall" and x["m"] == "unwrap"):
                    contracts[id(x)] = "UNIT char boundary"
    census(F, rep, contracts)
    import c16
    c16.no_unsafe(F, rep, "CENSUS")
    cursor_total(F, rep)
    single_visit(F, rep)
    # the loader's work list terminates on import cycles: a file is marked visited before anything can `continue` past it
    import c12
    c12.visit_once(F, rep)
    unsigned_sub(F, rep)
    list_recursion(F, rep)
    index_guard(F, rep)
    parser_progress(F, rep)
    # "... or returns a non-empty list of errors": an Err that carries no error is printed as nothing and exits with 0
    import c20
    c20.nonempty_errors(F, rep, "NONEMPTY-ERR")


# loops of the parser that are not driven by a cursor: what bounds them (reviewed; anything else is reported as a note)
BOUNDED_LOOPS = {
    ("Context::skip", 1): "counts up to n: the counter grows whenever the token is not a comment and EOF is not a comment (PROGRESS|Context::skip|advances-n)",
    ("Context::prev", 1): "walks back over comments until a non-comment token; every caller is strictly behind a root cursor, which rests on a non-comment token (PROGRESS|Context::prev|callers-behind-a-root)",
    ("expression::function", 2): "pops one trailing empty statement from a finite vector per iteration",
    ("sylt_parser::tree", 1): "work list of files guarded by a visited set (C12 VISIT-ONCE)",
}


def _structural_descent(F, path):
    """recursion that does not go through the token stream: every call of the function to itself passes, for one and the
    same parameter, a part of that parameter taken out by a pattern (`match rhs.kind { .. ArrowCall(pre, ..) .. => f(ctx, lhs, *pre)`)
    - a walk down a tree that has already been built, finite whatever the cursor does.  Returns the reason, or None."""
    fn = F.fns.get(path)
    if fn is None or fn.get("body") is None:
        return None
    body = fn_body(fn)
    params = [b for q in fn["params"] for b in pat_bindings(q["pat"])]
    pidx = {b["hid"]: i for i, b in enumerate(params)}
    bound_from = {}        # pattern binding -> parameter index whose value the enclosing match takes apart
    for m in nodes(body, "Match"):
        r = peel(m["scrut"])
        while isinstance(r, dict) and r.get("k") in ("Field", "MethodCall") and (r.get("k") == "Field" or r["m"] in ("as_ref", "clone", "borrow", "deref")):
            r = peel(r["e"] if r.get("k") == "Field" else r["recv"])
        if isinstance(r, dict) and r.get("k") == "Path" and r.get("hid") in pidx:
            for a in m["arms"]:
                for b in pat_bindings(a["pat"]):
                    bound_from[b["hid"]] = pidx[r["hid"]]
    calls = [c for c in nodes(body, "Call") if callee(c) == path]
    if not calls:
        return None
    common = None
    for c in calls:
        here = set()
        for i, a in enumerate(c["args"]):
            a = peel(a)
            while isinstance(a, dict) and a.get("k") == "MethodCall" and a["m"] in ("clone", "as_ref", "deref", "borrow"):
                a = peel(a["recv"])
            if isinstance(a, dict) and a.get("k") == "Path" and bound_from.get(a.get("hid")) == i:
                here.add(i)
        common = here if common is None else common & here
    if common:
        i = sorted(common)[0]
        return "every call of %s to itself passes a part of its own parameter `%s`, taken out by a pattern: it walks a tree that has already been parsed" % (
            last(path), params[i]["name"])
    return None


def parser_progress(F, rep):
    """(PROGRESS) every token-driven loop of sylt-parser moves its cursor strictly forward on every path back to the loop
    head (within at most three iterations) and leaves when the cursor is at the end of the input"""
    import progress
    A = progress.Analysis(F)
    for pr in sorted(set(A.problems)):
        rep.ob("PROGRESS", "analysis|" + pr.split(":")[0], False, "the abstract interpretation gave up: %s" % pr, None, sites=0)
    rep.ob("PROGRESS", "Context::skip|advances-n", A.skip_ok, "skip(n): " + A.skip_text, F.fns.get(progress.CTX_PATH + "skip", {}).get("sp"))
    rep.ob("PROGRESS", "Context::prev|back-over-comments-only", A.prev_ok, "prev(): " + A.prev_text, F.fns.get(progress.CTX_PATH + "prev", {}).get("sp"))
    proved = 0
    by_loop = {}
    for p, i, ln, res in A.loops():
        by_loop[(p, i)] = (ln, res)
    for (p, i), (ln, res) in sorted(by_loop.items()):
        name = last(p, 2) if not p.startswith(progress.CTX_PATH) else "Context::" + last(p)
        if p.count("::") == 1:
            name = p
        key = "%s|loop#%d" % (name, i)
        rep.analysed(p)
        if not res:
            rep.info("PROGRESS: loop %s at %s is in code the interpretation does not reach (not decided)" % (key, ln.get("sp")))
            continue
        driven = any(r["token_driven"] for r in res)
        fails = [f for r in res for f in r["failures"]]
        if p == "sylt_parser::parse_sep_end_by" and fails:
            # the generic list parser moves its cursor only through the callbacks it is given: one turn of its loop consumes input
            # iff the `item` callback does (the obligation its recursive form was discharged by)
            adv = A.item_callbacks_advance()
            rep.ob("PROGRESS", key, adv is True,
                   "every turn of the list parser's loop runs the `item` callback, and every `item` callback handed to it consumes at "
                   "least one token" if adv is True else
                   "the list parser's loop advances only if its `item` callback does, and one may consume nothing: %s" % adv, ln.get("sp"))
            proved += adv is True
            continue
        if not driven:
            why = BOUNDED_LOOPS.get((name, i))
            if why:
                rep.ob("PROGRESS", key + "|bounded", True, "not driven by a cursor: %s" % why, ln.get("sp"))
            else:
                rep.info("PROGRESS: loop %s at %s is not driven by a token cursor and not in the reviewed table (termination not decided)" % (key, ln.get("sp")))
            continue
        if (name, i) in BOUNDED_LOOPS:
            rep.ob("PROGRESS", key + "|bounded", True, "bounded by a counter: %s" % BOUNDED_LOOPS[(name, i)], ln.get("sp"))
            continue
        stuck = [b for k_, b in fails if k_ == "stuck"]
        eof = [b for k_, b in fails if k_ == "eof"]
        carried = sorted({c for r in res for c in r["carried"]})
        if not fails:
            proved += 1
            rep.ob("PROGRESS", key, True, "the cursor `%s` is strictly further on every path back to the loop head, and the loop is "
                   "left at the end of the input (%d abstract entry states)" % (", ".join(carried), len(res)), ln.get("sp"))
        else:
            parts = []
            if stuck:
                parts.append("a path returns to the loop head without the cursor `%s` having moved (also not after two more iterations): %s"
                             % (", ".join(carried), " -> ".join(stuck[0].trail[-8:]) or "straight through the body"))
            if eof:
                parts.append("with the cursor at the end of the input the loop is not left (Context::token() keeps answering EOF): %s"
                             % (" -> ".join(eof[0].trail[-8:]) or "straight through the body"))
            rep.ob("PROGRESS", key, False, "; ".join(parts) + " - the parser does not terminate on some input", ln.get("sp"))
    rep.ob("PROGRESS", "Context::prev|callers-behind-a-root", not A.prev_unsafe,
           "prev() is only applied to cursors that are strictly further than the cursor the function started from" if not A.prev_unsafe else
           "prev() is applied to a cursor that is not known to be strictly behind a root (%s): it may walk back past the start of what "
           "the caller consumed - or, over leading comments, never stop" % sorted(set(A.prev_unsafe))[:3], None, sites=1)
    rep.floor("PROGRESS", "token-driven parser loops proved to advance", proved, 24)
    n = 0
    for caller, cal, what, ok, detail, where in A.callable_checks():
        n += 1
        rep.ob("PROGRESS", "callable|%s->%s|%s" % (last(caller), cal, re.sub(r"[^A-Za-z0-9_:]", "", what)[:30]), ok,
               "a parser callback handed to %s never moves the cursor backwards (%s): %s" % (cal, what, detail), where)
    rep.floor("PROGRESS", "parser callbacks checked", n, 6)
    # vectors built by the parser and then read at a fixed position (`exprs.remove(0)` for a parenthesised expression): the
    # same interpretation tracks how many elements the vector holds at least and which flags were derived from which token
    ns = 0
    for (fnp, what), e in sorted(A.sites.items()):
        ns += 1
        rep.ob("VEC-BOUNDS", "%s|%s" % (last(fnp, 2) if fnp.count("::") > 1 else fnp, what), e["ok"],
               "on every path to `%s` the vector holds an element at that position" % what if e["ok"] else
               "`%s` can be reached with the vector too short - the parser panics (`removal index should be < len`); path: %s"
               % (what, " | ".join(e["trails"]) or "?"), e["where"])
    rep.floor("VEC-BOUNDS", "fixed-position removals from vectors the parser builds", ns, 2)
    # (BACKTRACK) a sub-parse that is started twice from the very same cursor: harmless when the first attempt is shallow, but
    # when the first attempt can contain the enclosing construct again (a call whose argument is a function literal whose body
    # holds statements ..) and the second attempt runs after the first one got that far, every nesting level doubles the work
    graph = A.call_graph()

    def reaches(a, b):
        seen, todo = set(), [a]
        while todo:
            q = todo.pop()
            if q == b:
                return True
            if q not in seen:
                seen.add(q)
                todo += list(graph.get(q, ()))
        return False
    nb = 0
    for (fnp, c0, c1), (where, node) in sorted(A.reparse.items(), key=lambda kv: (kv[0][0], kv[0][1], kv[0][2])):
        nb += 1
        fn = F.fns.get(fnp)
        outcome = A.retry_outcome(fn, c0, node) if fn else "any"
        d_ok, d_err = A.deepness.get(c0, (False, False))
        nests = reaches(c0, fnp)
        risky = nests and ((outcome in ("ok", "any") and d_ok) or (outcome in ("err", "any") and d_err))
        rep.ob("BACKTRACK", "%s|%s+%s" % (last(fnp, 2) if fnp.count("::") > 1 else last(fnp), last(c0), last(c1)), not risky,
               ("%s() parses from the same cursor twice (%s, then %s after %s): the first attempt %s" % (
                   last(fnp), last(c0), last(c1), {"ok": "it succeeded", "err": "it failed", "any": "either outcome"}[outcome],
                   "cannot contain a nested %s" % last(fnp) if not nests else
                   "only fails before it has parsed anything nested" if outcome == "err" else "is shallow")) if not risky else
               "%s() parses from the same cursor twice: %s(ctx) and then, after %s, %s(ctx) again over the same tokens. The first "
               "parse can contain a nested %s (an argument that is a function literal with statements in its body), which does the "
               "same: the work doubles with every nesting level - `f(fn do f(fn do .. end) end)` nested 30 deep takes hours" % (
                   last(fnp), last(c0), {"ok": "it succeeded", "err": "it failed", "any": "either outcome"}[outcome], last(c1), last(fnp)),
               where)
    rep.floor("BACKTRACK", "repeated sub-parses from one cursor", nb, 4)
    # recursion without progress
    n_nodes, cycles = A.zero_progress_cycles()
    seen_c = set()
    for cyc in cycles:
        names = tuple(last(x[0]) for x in cyc)
        key = "->".join(names)
        if key in seen_c:
            continue
        seen_c.add(key)
        why = _structural_descent(F, cyc[0][0]) if len(set(names)) == 1 else None
        ok = why is not None
        if names[0] == "parse_sep_end_by" and len(set(names)) == 1:
            # the list parser calls itself after `item` and `sep`: it consumes input iff the item callback does
            items = [(c_[2], c_[3], c_[4]) for c_ in A.callable_checks() if c_[1] == "parse_sep_end_by"]
            adv = A.item_callbacks_advance()
            ok = adv is True
            why = "every `item` callback handed to parse_sep_end_by consumes at least one token" if ok else "an `item` callback may consume nothing: %s" % adv
        rep.ob("PROGRESS", "recursion|%s" % key, ok,
               "the cycle %s hands the cursor on unchanged, but: %s" % (key, why) if ok else
               "the parsing functions %s call each other with the cursor they were given and nothing consumed in between: on input that "
               "takes this path the parser recurses until the stack overflows%s" % (key, " (%s)" % why if why else ""), None, sites=len(cyc))
    rep.ob("PROGRESS", "recursion|census", True, "%d (function, token fact) nodes explored for calls that pass the cursor on unchanged; "
           "%d cycle(s), each listed above" % (n_nodes, len(seen_c)), None, sites=n_nodes)
    rep.floor("PROGRESS", "recursion nodes explored", n_nodes, 40)
    rep.info("PROGRESS summaries (cursor returned relative to the argument): " + "; ".join(
        "%s %s%s" % (last(p), progress.show(sm["ret"]), "" if sm["eof_ok"] else " [no Ok at EOF]") for p, sm in sorted(A.summaries.items())))


# --------------------------------------------------------------------------- helpers

def diverging_arms(fn, enum):
    """[(set of variant last-names declared impossible, arm)] for matches over enum in fn"""
    out = []
    for m in nodes(fn_body(fn), "Match"):
        if not ty_is(m.get("scrut_ty", ""), enum):
            continue
        for arm in m["arms"]:
            if diverges(arm["body"]):
                names = set()
                for alt in pat_alternatives(arm["pat"]):
                    v = pat_variant(alt)
                    names.add(last(v) if v else "_")
                out.append((names, arm, m))
    return out


def handled_variants(m):
    hs = set()
    for arm in m["arms"]:
        if diverges(arm["body"]):
            continue
        for alt in pat_alternatives(arm["pat"]):
            v = pat_variant(alt)
            if v:
                hs.add(last(v))
    return hs


def mark(contracts, node, name):
    contracts[id(node)] = name


def panic_nodes(n):
    return [x for x in nodes(n, "Call") if is_panic_call(x)]


# --------------------------------------------------------------------------- K1

def filter_of(F, fnpath):
    """(ok-set, err-set, default) of a function that matches on stmt.kind after calling statement()"""
    fn = F.fn(fnpath)
    ok, err, default = set(), set(), None
    calls_statement = any(callee(c) == P + "statement::statement" for c in nodes(fn_body(fn), "Call"))
    for m in nodes(fn_body(fn), "Match"):
        if not ty_is(m.get("scrut_ty", ""), SK):
            continue
        for arm in m["arms"]:
            b = peel(arm["body"])
            is_err = tc.is_err_value(b) or any(tc.is_err_value(r.get("e")) for r in nodes(b, "Ret"))
            for alt in pat_alternatives(arm["pat"]):
                v = pat_variant(alt)
                if v:
                    (err if is_err else ok).add(last(v))
                else:
                    default = "err" if is_err else "ok"
    return fn, calls_statement, ok, err, default


def token_prefilter(fn):
    """the call of statement() sits in the then-branch of `if matches!(ctx.token(), T::A | T::B ..)` whose token set
    contains neither Identifier nor Use nor From"""
    for i, parents in walk(fn_body(fn)):
        if i.get("k") != "If":
            continue
        if not any(callee(c) == P + "statement::statement" for c in nodes(i["t"], "Call")):
            continue
        toks = set()
        for m in nodes(i["c"], "Match"):
            if any(x == "matches" for x in m.get("mac", [])):
                for arm in m["arms"]:
                    if peel(arm["body"]).get("v") is True:
                        for alt in pat_alternatives(arm["pat"]):
                            if pat_variant(alt):
                                toks.add(last(pat_variant(alt)))
        if toks and not (toks & {"Identifier", "Use", "From"}):
            return True
    return False


def k1(F, rep, contracts):
    allk = set(F.variants(SK))
    decl = {"Blob", "Enum", "ExternalDefinition", "Use", "FromUse"}
    # who calls statement()?
    callers = {}
    for fn in F.own_fns(["sylt_parser"]):
        for c in nodes(fn_body(fn), "Call"):
            if callee(c) == P + "statement::statement":
                callers.setdefault(fn["_path"], []).append(c)
    filters = {}
    for path in callers:
        try:
            fn, calls, ok, err, default = filter_of(F, path)
        except Exception:
            continue
        if ok or err:
            filters[path] = (ok, err, default)
    nested_ok = None
    for path, cs in sorted(callers.items()):
        name = last(path, 2)
        if path in filters:
            ok, err, default = filters[path]
            allowed = ok | (allk - err if default == "ok" else set())
            if name.endswith("outer_statement"):
                want = {"Blob", "Enum", "Definition", "ExternalDefinition", "Use", "FromUse", "EmptyStatement"}
                rep.ob("CONTRACT", "K1'|parser-filter|%s" % name, allowed == want and default == "err",
                       "outer_statement lets through exactly %s (everything else is a syntax error)" % sorted(allowed), F.fn(path)["sp"])
            else:
                nested_ok = allowed if nested_ok is None else nested_ok | allowed
                rep.ob("CONTRACT", "K1|parser-filter|%s" % name, not (allowed & decl),
                       "%s rejects %s for nested statements (lets through %s)" % (name, sorted(decl & err), sorted(allowed)), F.fn(path)["sp"])
        elif token_prefilter(F.fn(path)):
            rep.ob("CONTRACT", "K1|parser-filter|%s" % name, True,
                   "%s only calls statement() behind a test of the leading token that excludes identifiers / use / from, so the "
                   "statement cannot be a declaration" % name, F.fn(path)["sp"])
        else:
            rep.ob("CONTRACT", "K1|unfiltered-caller|%s" % name, False,
                   "%s calls statement() directly: a nested `A :: blob {..}` / enum / external / use is parsed at any depth, is passed on by "
                   "the resolver when a global of that name exists, and reaches `unreachable!` in the type checker's and the "
                   "lowering's statement() (panic)" % name, line_of(cs[0]), sites=len(cs))
    # resolver keeps the kind: SK::X -> S::X
    rs = F.fn(R + "statement")
    rep.analysed(rs)
    mapping = {}
    for m in nodes(fn_body(rs), "Match"):
        if not ty_is(m.get("scrut_ty", ""), SK):
            continue
        for arm in m["arms"]:
            outs = {last(norm_path(s["path"])) for s in nodes(arm["body"], "Struct") if norm_path(s["path"]).startswith(S + "::")}
            outs |= {last(callee(c)) for c in nodes(arm["body"], "Call") if (callee(c) or "").startswith(S + "::")}
            b = peel(arm["body"])
            none = b.get("k") == "Path" and norm_path(b.get("path", "")).endswith("Option::None")
            for alt in pat_alternatives(arm["pat"]):
                v = pat_variant(alt)
                if v:
                    mapping[last(v)] = "None" if none else (sorted(outs)[0] if len(outs) == 1 else sorted(outs))
    same = {k: v for k, v in mapping.items() if v != k and v != "None"}
    rep.ob("CONTRACT", "K1|resolver-keeps-kind", not same and len(mapping) == len(allk),
           "Resolver::statement maps every parser statement kind to the same resolved kind (or drops it): exceptions %s" % same, rs["sp"])
    # consumers
    for fnpath, position in ((TCP + "statement", "nested"), (CG + "statement", "nested"), (TCP + "outer_statement", "top")):
        fn = F.fn(fnpath)
        rep.analysed(fn)
        for names, arm, m in diverging_arms(fn, S):
            if position == "nested":
                possible = (nested_ok or allk) - {"EmptyStatement", "Use", "FromUse"}
                key = "K1|consumer|%s" % last(fnpath, 2)
            else:
                possible = {"Blob", "Enum", "Definition", "ExternalDefinition"}
                key = "K1'|consumer|%s" % last(fnpath, 2)
            clash = names & possible
            rep.ob("CONTRACT", key, not clash,
                   "%s declares %s impossible; at a %s position the producer can deliver %s%s" % (
                       last(fnpath, 2), sorted(names), position, sorted(possible), "" if not clash else " — CLASH on %s" % sorted(clash)),
                   line_of(arm))
            for pn in panic_nodes(arm["body"]):
                mark(contracts, pn, "K1")


# --------------------------------------------------------------------------- K2 / K3

def k2_k3(F, rep, contracts):
    fn_res, rtab, helpers = pipe.resolver_ops(F)
    bin_consts = {v[1] for v in rtab.values() if v[0] == "binop"}
    # Expression::BinOp is constructed only by Resolver::binop
    makers = set()
    for fn in F.fns_in("sylt_compiler::"):
        for s in nodes(fn_body(fn), "Struct"):
            if norm_path(s["path"]) == E + "::BinOp":
                makers.add(last(fn["_path"], 2))
    rep.ob("CONTRACT", "K2|producer", makers == {"Resolver::binop"} and "Nop" not in bin_consts,
           "Expression::BinOp is built only by Resolver::binop (%s), which is only called with %s" % (sorted(makers), sorted(bin_consts)))
    for fnpath in (TCP + "expression", CG + "expression"):
        fn = F.fn(fnpath)
        for names, arm, m in diverging_arms(fn, NR + "BinOp"):
            impossible = set(names)
            if "_" in impossible:
                # default arm: everything not handled by this match nor by earlier, more specific arms of the enclosing match
                handled = handled_variants(m)
                earlier = earlier_binop_arms(fn, m)
                impossible = set(F.variants(NR + "BinOp")) - handled - earlier
            clash = impossible & bin_consts
            rep.ob("CONTRACT", "K2|consumer|%s" % last(fnpath, 2), not clash,
                   "%s treats BinOp::%s as impossible inside an expression; the resolver produces %s" % (last(fnpath, 2), sorted(impossible), sorted(bin_consts)),
                   line_of(arm))
            for pn in panic_nodes(arm["body"]):
                mark(contracts, pn, "K2")
    # K3: targets and ops of assignments in the lowering
    fn = F.fn(CG + "statement")
    tok2op, op2bin = pipe.assign_ops(F)
    ops_possible = set(op2bin.values())
    for names, arm, m in diverging_arms(fn, NR + "BinOp"):
        handled = handled_variants(m)
        impossible = set(F.variants(NR + "BinOp")) - handled
        clash = impossible & ops_possible
        rep.ob("CONTRACT", "K3|ops", not clash, "assignment ops reaching the lowering are %s; it handles %s" % (sorted(ops_possible), sorted(handled)), line_of(arm))
        for pn in panic_nodes(arm["body"]):
            mark(contracts, pn, "K3")
    for names, arm, m in diverging_arms(fn, E):
        handled = handled_variants(m)
        # can_assign's accept set (validated by C04)
        fca = F.fn(TCP + "can_assign")
        acc = set()
        for mm in matches_on(fn_body(fca), E):
            for a2, alt, vp in arm_alternatives(mm):
                if vp and not tc.is_err_value(a2["body"]):
                    acc.add(last(vp))
            break
        rep.ob("CONTRACT", "K3|targets", acc <= handled, "assignment targets let through by can_assign %s are handled by the lowering %s" % (sorted(acc), sorted(handled)), line_of(arm))
        for pn in panic_nodes(arm["body"]):
            mark(contracts, pn, "K3")
    # S::Assignment is constructed only by Resolver::statement
    makers = set()
    for f2 in F.fns_in("sylt_compiler::"):
        for s in nodes(fn_body(f2), "Struct"):
            if norm_path(s["path"]) == S + "::Assignment":
                makers.add(last(f2["_path"], 2))
    rep.ob("CONTRACT", "K3|producer", makers == {"Resolver::statement"}, "Statement::Assignment is built only by Resolver::statement (%s)" % sorted(makers))


def earlier_binop_arms(fn, inner):
    """BinOp variants matched by nested constant patterns `op: BinOp::X` in arms of the enclosing Expression match"""
    out = set()
    for m in nodes(fn_body(fn), "Match"):
        if not ty_is(m.get("scrut_ty", ""), E):
            continue
        for arm in m["arms"]:
            for alt in pat_alternatives(arm["pat"]):
                from hir import pat_fields
                sub = pat_fields(alt).get("op")
                if sub is not None:
                    for a2 in pat_alternatives(sub):
                        v = pat_variant(a2)
                        if v and v.startswith(NR + "BinOp::"):
                            out.add(last(v))
    return out


# --------------------------------------------------------------------------- K4

def k4(F, rep, contracts):
    fn = F.fn(TCP + "inner_resolve_type")
    handled, arms = set(), []
    RT = "sylt_common::ty::Type"
    for m in nodes(fn_body(fn), "Match"):
        if ty_is(m.get("scrut_ty", ""), RT):
            handled = handled_variants(m)
            arms = [a for a in m["arms"] if diverges(a["body"])]
    made = set()
    sites = 0
    for f2 in F.own_fns(["sylt_parser", "sylt_compiler"]):
        for c in nodes(fn_body(f2), "Call"):
            if (callee(c) or "") == P + "TypeKind::Resolved":
                a = peel(c["args"][0])
                if a.get("k") == "Path" and a.get("res") == "Def":
                    made.add(last(norm_path(a["path"])))
                    sites += 1
                elif a.get("k") == "Path" and a.get("res") == "Local":
                    made.add("<clone of an existing Resolved>")
                else:
                    made.add("?" + pp(a)[:20])
    made_c = {x for x in made if not x.startswith("<")}
    rep.ob("CONTRACT", "K4", bool(handled) and made_c <= handled,
           "TypeKind::Resolved is constructed with %s (%d sites); inner_resolve_type handles %s" % (sorted(made), sites, sorted(handled)), fn["sp"], sites=sites)
    for a in arms:
        for pn in panic_nodes(a["body"]):
            mark(contracts, pn, "K4")


# --------------------------------------------------------------------------- K5 .. K7

def k5_k7(F, rep, contracts):
    # K5: definition() only under a Definition arm, with the matched statement
    n = 0
    bad = []
    for fn in F.fns_in("sylt_compiler::typechecker::"):
        for c, parents in walk(fn_body(fn)):
            if c.get("k") == "MethodCall" and callee(c) == TCP + "definition":
                n += 1
                arms = [p for p in parents if p.get("k") is None and "pat" in p]
                ok = bool(arms) and all((pat_variant(a) or "").endswith("Statement::Definition") for a in pat_alternatives(arms[-1]["pat"]))
                if not ok:
                    bad.append(line_of(c))
    rep.ob("CONTRACT", "K5", n >= 2 and not bad, "TypeChecker::definition is called %d times, always from a Definition arm (%s)" % (n, bad or "ok"))
    fdef = F.fn(TCP + "definition")
    for pn in panic_nodes(fn_body(fdef)):
        mark(contracts, pn, "K5")
    # K6: constant index
    fai = F.fn(P + "assignable_index")
    t = pp(fn_body(fai))
    guards_int = "ExpressionKind::Int(_)" in t and any(tc.is_err_value(r.get("e")) for r in nodes(fn_body(fai), "Ret"))
    makers = set()
    for f2 in F.own_fns(["sylt_parser"]):
        for c in nodes(fn_body(f2), "Call"):
            if (callee(c) or "") == P + "AssignableKind::Index":
                makers.add(last(f2["_path"], 2))
    fn_res = F.fn(R + "expression")
    int_map = False
    for m in matches_on(fn_body(fn_res), pipe.EK):
        for arm, alt, vp in arm_alternatives(m):
            if vp and last(vp) == "Int":
                b = peel(arm["body"])
                int_map = (callee(b) or "").endswith("Expression::Int")
    rep.ob("CONTRACT", "K6", guards_int and makers == {"sylt_parser::assignable_index"} and int_map,
           "an index node is only built by assignable_index (%s), which demands an int literal; the resolver maps Int to Int" % sorted(makers), fai["sp"])
    fex = F.fn(TCP + "expression")
    for names, arm, m in diverging_arms(fex, E):
        for pn in panic_nodes(arm["body"]):
            mark(contracts, pn, "K6")
    # K7: ty_assignable returns UserType only
    fta = F.fn(R + "ty_assignable")
    ctors = [last(callee(c)) for c in nodes(fn_body(fta), "Call") if (callee(c) or "").startswith(NR + "Type::")]
    rep.ob("CONTRACT", "K7", bool(ctors) and set(ctors) == {"UserType"}, "Resolver::ty_assignable only builds Type::%s" % sorted(set(ctors)), fta["sp"])
    for names, arm, m in diverging_arms(fn_res, NR + "Type"):
        for pn in panic_nodes(arm["body"]):
            mark(contracts, pn, "K7")


# --------------------------------------------------------------------------- K8

def k8(F, rep, contracts):
    for prefix, variant, helpfn in (("sylt_compiler::typechecker::", "TypeError", "sylt_compiler::typechecker::[Result as Help]::help"),
                                    (NR, "CompileError", NR + "[Result as Help]::help")):
        built = {}
        empties = []
        for fn in F.fns_in(prefix):
            for s in nodes(fn_body(fn), "Struct"):
                p = norm_path(s["path"])
                if p.startswith("sylt_common::error::Error::"):
                    built[last(p)] = built.get(last(p), 0) + 1
            # Err(Vec::new()) or Err(vec![]) would make .help() panic
            for c in nodes(fn_body(fn), "Call"):
                if (callee(c) or "").endswith("Result::Err") and c["args"]:
                    a = peel(c["args"][0])
                    if callee(a) == "alloc::vec::Vec::new":
                        empties.append(line_of(c))
        rep.ob("CONTRACT", "K8|%s|variant" % variant, set(built) == {variant},
               "errors built in %s are all Error::%s (%s), the variant its .help() expects" % (prefix.rstrip(":"), variant, built), sites=sum(built.values()))
        rep.ob("CONTRACT", "K8|%s|non-empty" % variant, not empties, "no empty error vector is returned in %s (%s)" % (prefix.rstrip(":"), empties or "ok"))
        for hname in (helpfn, helpfn.replace("::help", "::help_no_span")):
            hf = F.fn_opt(hname)
            if hf:
                for pn in panic_nodes(fn_body(hf)):
                    mark(contracts, pn, "K8")
    # the one place that returns a collected vector guards it with !is_empty()
    fex = F.fn(TCP + "expression")
    ok = False
    for i in nodes(fn_body(fex), "If"):
        if "!errors.is_empty()" in pp(i["c"]) and "Err(errors)" in pp(i["t"]):
            ok = True
    rep.ob("CONTRACT", "K8|collected-errors-guarded", ok, "the collected field errors of a blob literal are returned only when non-empty", fex["sp"])


# --------------------------------------------------------------------------- K9 / K10

def k9_k10(F, rep, contracts):
    T = irp.Tables(F)
    fnarm = [a for a in T.expr if a["label"] == "Function"]
    first = fnarm[0]["items"][0] if fnarm and fnarm[0]["items"] else None
    fdef = F.fn(CG + "definition")
    # every divergence in definition() sits under a test that the value is a function literal: the then-branch of an `if`
    # whose condition tests Expression::Function, or a match arm over that variant
    pns = list(panic_nodes(fn_body(fdef)))
    guard = bool(pns)
    for pn in pns:
        dominated = False
        for n_, parents in walk(fn_body(fdef)):
            if n_ is pn:
                for i_, p_ in enumerate(parents):
                    if p_.get("k") == "If" and "Expression::Function" in pp(p_["c"]) and any(x is pn for x in nodes(p_["t"])):
                        dominated = True
                    if p_.get("k") is None and "pat" in p_ and "body" in p_ and \
                            any((pat_variant(alt) or "").endswith("Expression::Function") for alt in pat_alternatives(p_["pat"])):
                        dominated = True
        guard = guard and dominated
    rep.ob("CONTRACT", "K9", bool(first) and first[0] == "op" and first[1] == "Function" and guard,
           "definition() rewrites code[0] only for function literals, whose lowering starts with IR::Function", fdef["sp"])
    for pn in panic_nodes(fn_body(fdef)):
        mark(contracts, pn, "K9")
    # K10
    comp = F.fn("sylt_compiler::intermediate::compile")
    solve = F.fn("sylt_compiler::typechecker::solve")

    def pred(fn):
        for c in nodes(fn_body(fn), "MethodCall"):
            if c["m"] == "find":
                clo = [a for a in c["args"] if a.get("k") == "Closure"]
                if clo:
                    return re.sub(r"\s+", " ", pp(clo[0]["body"]))
        return None
    p1, p2 = pred(comp), pred(solve)
    rep.ob("CONTRACT", "K10", p1 is not None and p1 == p2,
           "the lowering finds `start` with the predicate `%s`; solve() (which errors when it is absent) uses `%s`" % (p1, p2), comp["sp"])
    # ... and the None arm of the match on that lookup in solve() is an error exit (otherwise compile()'s unwrap is reachable)
    tsolve = F.fn("sylt_compiler::typechecker::TypeChecker::solve")
    none_err = False
    for m in nodes(fn_body(tsolve), "Match"):
        if "Option<" in m.get("scrut_ty", ""):
            for a in m["arms"]:
                for alt in pat_alternatives(a["pat"]):
                    if (pat_variant(alt) or "").endswith("Option::None"):
                        none_err = tc.is_err_value(a["body"])
    import c05
    none_err = none_err or c05.resolver_guarantees_start(F)
    rep.ob("CONTRACT", "K10|absent=>Err", none_err,
           "a missing `start` is an error before the lowering runs (name resolution only accepts a variable defined in the main "
           "file, or TypeChecker::solve has the error arm), so intermediate::compile's `.find(..).unwrap()` with the same "
           "predicate cannot meet None", tsolve["sp"])
    tnew = F.fn(TCP + "new")
    fields = {f["name"]: pp(peel_clone(f["e"])) for s in nodes(fn_body(tnew), "Struct") if s["path"].endswith("TypeVariable") for f in s["fields"]}
    rep.ob("CONTRACT", "K10|variables-copied", fields.get("name") == "var.name" and fields.get("is_global") == "var.is_global",
           "TypeChecker::new copies name and is_global of every variable (%s)" % {k: fields.get(k) for k in ("name", "is_global")}, tnew["sp"])
    for c in nodes(fn_body(comp), "MethodCall"):
        if c["m"] == "unwrap":
            mark(contracts, c, "K10")


# --------------------------------------------------------------------------- K11 .. K14

def k11_k14(F, rep, contracts):
    fn_infix, ptab, valid, rhs = pipe.parser_infix(F)
    rep.ob("CONTRACT", "K11", set(ptab) == valid and bool(valid),
           "infix(): the node-building match handles exactly the tokens the validity match let through (%d)" % len(valid), fn_infix["sp"])
    for pn in panic_nodes(fn_body(fn_infix)):
        mark(contracts, pn, "K11")
    # K12: [Identifier, ColonColon | ColonEqual, ..] arm vs inner match
    st = F.fn(P + "statement::statement")
    ok12 = False
    for m in nodes(fn_body(st), "Match"):
        if not ty_is(m.get("scrut_ty", ""), c13.TOK):
            continue
        divs = [a for a in m["arms"] if diverges(a["body"])]
        if not divs:
            continue
        handled = handled_variants(m)
        if handled == {"ColonColon", "ColonEqual"}:
            # the enclosing lookahead arm names the same two tokens in second position
            for mm, parents in walk(fn_body(st)):
                pass
            ok12 = True
            for pn in panic_nodes(divs[0]["body"]):
                mark(contracts, pn, "K12")
    look = False
    for m in nodes(fn_body(st), "Match"):
        if "[sylt_tokenizer::token::Token; 3]" in m.get("scrut_ty", ""):
            for arm in m["arms"]:
                p = pat_strip(arm["pat"])
                if p.get("k") == "Slice" and len(p["before"]) >= 2:
                    second = {last(pat_variant(a)) for a in pat_alternatives(p["before"][1]) if pat_variant(a)}
                    if second == {"ColonColon", "ColonEqual"}:
                        look = True
    rep.ob("CONTRACT", "K12", ok12 and look, "the `::`/`:=` re-match after the lookahead arm [Identifier, `::`|`:=`, ..] handles exactly those two tokens", st["sp"])
    # K13: parse_type constraint separators
    pt = F.fn(P + "parse_type")
    pca = F.fn(P + "parse_type_constraint_argument")
    breaks = set()
    for m in nodes(fn_body(pca), "Match"):
        if ty_is(m.get("scrut_ty", ""), c13.TOK):
            for arm in m["arms"]:
                if any(x.get("k") == "Break" for x in nodes(arm["body"])) or peel(arm["body"]).get("k") == "Break":
                    for alt in pat_alternatives(arm["pat"]):
                        if pat_variant(alt):
                            breaks.add(last(pat_variant(alt)))
    handled13 = set()
    for m in nodes(fn_body(pt), "Match"):
        if ty_is(m.get("scrut_ty", ""), c13.TOK) and any(diverges(a["body"]) for a in m["arms"]):
            hv = handled_variants(m)
            if "Plus" in hv:
                handled13 = hv
                for a in m["arms"]:
                    if diverges(a["body"]):
                        for pn in panic_nodes(a["body"]):
                            mark(contracts, pn, "K13")
    rep.ob("CONTRACT", "K13", bool(breaks) and breaks <= handled13,
           "parse_type_constraint_argument returns only at %s; parse_type's separator match handles %s" % (sorted(breaks), sorted(handled13)), pt["sp"])
    # K14: all errors built in the parser are SyntaxError (or GitConflict / reader errors in tree()), vectors non-empty
    built = {}
    for fn in F.own_fns(["sylt_parser"]):
        for s in nodes(fn_body(fn), "Struct"):
            p = norm_path(s["path"])
            if p.startswith("sylt_common::error::Error::"):
                built.setdefault(last(p), set()).add(last(fn["_path"], 2))
    ok = set(built) <= {"SyntaxError", "GitConflictError"} and built.get("GitConflictError", set()) <= {"sylt_parser::find_conflict_markers"}
    rep.ob("CONTRACT", "K14", ok, "parse functions only build Error::SyntaxError (%s)" % {k: len(v) for k, v in built.items()})
    for fn in F.own_fns(["sylt_parser"]):
        for n in nodes(fn_body(fn), "Call"):
            if is_panic_call(n) and any(m.endswith("detail_if_error") for m in (n.get("mac") or n["f"].get("mac") or [])):
                mark(contracts, n, "K14")


# --------------------------------------------------------------------------- K15 / K16

def k15_k16(F, rep, contracts):
    tr = F.fn(P + "tree")
    rep.analysed(tr)
    body = fn_body(tr)
    # modules.push happens for the file that was read; every failure to produce a module pushes an error
    t = pp(body)
    ok = "errors.is_empty()" in t and "Result::Ok(sylt_parser::AST" in t.replace("\n", " ")
    rep.ob("CONTRACT", "K15|tree-ok-implies-modules", ok, "tree() returns Ok only when no error was recorded; the main file either yields a module or an error", tr["sp"])
    comp = F.fn("sylt_compiler::Compiler::compile")
    for pn in panic_nodes(fn_body(comp)):
        mark(contracts, pn, "K15")
    ex = F.fn("sylt_compiler::Compiler::extract_namespaces")
    for pn in panic_nodes(fn_body(ex)):
        mark(contracts, pn, "K15")
    # K16: the path handed to tree() may have no parent ("" or "/"): parent() must not be unwrapped
    bad = []
    for c in nodes(body, "MethodCall"):
        if c["m"] in ("unwrap", "expect") and (callee(c) or "").startswith("core::option::Option::"):
            r = peel(c["recv"])
            if r.get("k") == "MethodCall" and r["m"] == "parent" and "path" in pp(r["recv"]):
                bad.append(c)
    rep.ob("CONTRACT", "K16|main-path-parent", not bad,
           "tree() %s" % ("does not assume the main file's path has a parent directory" if not bad else
                          "unwraps path.parent(): running the compiler on the path `/` or on an empty path panics instead of reporting an error"),
           line_of(bad[0]) if bad else tr["sp"])
    for c in bad:
        mark(contracts, c, "K16")


# --------------------------------------------------------------------------- GUARD

def guard(F, rep):
    """functions of the type checker that call themselves (directly or mutually) while descending into the components
    of a type must thread a visited collection and consult it"""
    fns = {fn["_path"]: fn for fn in F.fns_in("sylt_compiler::typechecker::TypeChecker::")}
    calls = {p: {callee(c) for c in nodes(fn_body(fn)) if c.get("k") in ("Call", "MethodCall") and callee(c) in fns} for p, fn in fns.items()}
    n = 0
    for p, fn in sorted(fns.items()):
        if p not in calls[p]:
            continue  # not directly recursive
        body = fn_body(fn)
        takes_tyid = any("TyID" in prm["ty"] for prm in fn["params"])
        if not takes_tyid:
            continue
        # recursion on components: a recursive call whose TyID arguments are bound by destructuring a Type pattern
        fl = Flow(fn, body)
        descends = False
        for c in nodes(body, "MethodCall"):
            if callee(c) != p:
                continue
            for a in c["args"]:
                a0 = peel_clone(a)
                while a0.get("k") == "Unary":
                    a0 = peel_clone(a0["e"])
                o = fl.origin.get(a0.get("hid")) if a0.get("k") == "Path" else None
                seen_hops = 0
                while o is not None and seen_hops < 6:
                    if any(el[0] == "field" and "ty::Type::" in el[1] for el in o["path"]):
                        descends = True
                        break
                    if o["kind"] in ("for", "closure", "let") and o.get("src") is not None:
                        # follow the iterator / initialiser back to a Type-pattern binding
                        hs = [x for x in nodes(o["src"], "Path") if x.get("res") == "Local"]
                        o = fl.origin.get(hs[0]["hid"]) if hs else None
                        seen_hops += 1
                    else:
                        break
        if not descends:
            continue
        n += 1
        seen_params = [prm for prm in fn["params"] if re.search(r"(HashMap|HashSet|BTreeMap|BTreeSet)<", prm["ty"])]
        consulted = False
        for prm in seen_params:
            for b in pat_bindings(prm["pat"]):
                for c in nodes(body, "MethodCall"):
                    if c["m"] in ("contains", "contains_key", "get", "insert", "entry") and peel(c["recv"]).get("hid") == b["hid"]:
                        consulted = True
        name = last(p)
        rep.ob("GUARD", name, bool(seen_params) and consulted,
               "TypeChecker::%s recurses into the components of a type %s" % (
                   name, "and consults its visited set `%s` first" % pat_bindings(seen_params[0]["pat"])[0]["name"] if seen_params and consulted else
                   "without a visited set: unification performs no occurs check, so a cyclic type (t = (t, 1)) makes it recurse until "
                   "the native stack overflows (process abort)"), fn["sp"])
        # the node is marked *before* the walk goes into its components: a mark that is only set afterwards never meets the
        # node it is working on, and a type that contains itself (unification makes those: `fn g do g(g) end`) recurses for ever
        if seen_params and consulted:
            order = [id(x) for x in nodes(body)]
            seen_h = {b["hid"] for prm in seen_params for b in pat_bindings(prm["pat"])}
            marks = [order.index(id(c)) for c in nodes(body, "MethodCall") if c["m"] in ("insert", "entry") and peel(c["recv"]).get("hid") in seen_h]
            recs_i = [order.index(id(c)) for c in nodes(body, "MethodCall") if callee(c) == p]
            marked_first = bool(marks) and bool(recs_i) and min(marks) < min(recs_i)
            rep.ob("GUARD", name + "|marks-before-recursing", marked_first,
                   "TypeChecker::%s enters the node into its visited set before it recurses into the components" % name if marked_first else
                   "TypeChecker::%s recurses into the components of a type before the type itself is entered into the visited set: on a "
                   "type that contains itself the recursion never ends (native stack overflow, no error reported)" % name, fn["sp"])
        # the visited set is keyed on the nodes of the call: it only ends the recursion if no arm keeps inventing new
        # nodes to recurse on (or takes entries out of the set again)
        fresh_rec = None
        removes = [c for c in nodes(body, "MethodCall") if c["m"] == "remove" and seen_params
                   and any(peel(c["recv"]).get("hid") == b["hid"] for prm in seen_params for b in pat_bindings(prm["pat"]))]
        for m in nodes(body, "Match"):
            for arm in m["arms"]:
                makes = [c for c in nodes(arm["body"], "MethodCall") if callee(c) == TCP + "push_type"]
                recs = [c for c in nodes(arm["body"], "MethodCall") if callee(c) == p]
                if makes and recs:
                    fresh_rec = arm
        if seen_params and consulted:
            rep.ob("GUARD", name + "|guard-key-is-stable", fresh_rec is None and not removes,
                   ("no arm of TypeChecker::%s creates type nodes and recurses, or un-marks a visited pair" % name)
                   if fresh_rec is None and not removes else
                   ("an arm of TypeChecker::%s creates fresh type nodes and recurses on them%s: the visited set is keyed on the "
                    "node pair, and one half of the pair is new at every level, so on a cyclic type (`x = (x,)`, then `x / 2`) the "
                    "recursion never meets a visited pair and ends in a native stack overflow"
                    % (name, " (and removes the current pair from the set)" if removes else "")),
                   line_of(fresh_rec) if fresh_rec else fn["sp"])
    rep.floor("GUARD", "functions recursing over type components", n, 8)
    guard_discipline(F, rep, fns, calls)
    worklists_are_guarded(F, rep, fns)
    # unfolding the type *graph* (nodes shared through TyID) into an owned *tree*: the visited map stops cycles but not
    # sharing, so the tree of `a30` in `a0 := (1, 1); a1 := (a0, a0); ..` has 2^31 leaves unless depth or size is bounded
    for p, fn in sorted(fns.items()):
        if p not in calls[p]:
            continue
        ret = fn.get("ret") or ""
        if "sylt_common::ty::Type" not in ret:
            continue
        budget = [prm for prm in fn["params"] if prm["ty"].strip() in ("usize", "u32", "i32", "u64")]
        rep.ob("GUARD", last(p) + "|output-size-bounded", bool(budget),
               ("TypeChecker::%s carries a numeric budget (%s)" % (last(p), budget[0]["ty"])) if budget else
               ("TypeChecker::%s unfolds shared type nodes into an owned tree (every use of a node is cloned into the result) "
                "with no bound on depth or size: rendering one type error about a value built by 30 lines of "
                "`a{i} := (a{i-1}, a{i-1})` needs about a terabyte and the process aborts" % last(p)), fn["sp"])
    # dependency::order::recurse is guarded by its state map
    fr = F.fn("sylt_compiler::dependency::order::recurse")
    t = pp(fn_body(fr))
    rep.ob("GUARD", "dependency::recurse", "inserted.entry(" in t and "State::Inserting" in t, "the dependency ordering marks nodes before recursing", fr["sp"])


def worklists_are_guarded(F, rep, fns):
    """.. the same walk written as a loop over a work list: a loop that pops a type node off a vector and pushes the node's
    components back onto it ends on a type that contains itself only if it keeps the set of nodes it has met and skips those"""
    n = 0
    for p, fn in sorted(fns.items()):
        w_ = 0
        for lp in [x for x in nodes(fn_body(fn)) if x.get("k") in ("Loop", "While", "ForLoop")]:
            pops = [c for c in nodes(lp, "MethodCall") if c["m"] == "pop" and "Vec<" in (peel(c["recv"]).get("ty") or "") and "TyID" in (peel(c["recv"]).get("ty") or "") + "usize" * ("Vec<usize>" in (peel(c["recv"]).get("ty") or ""))]
            for pc in pops:
                wl = peel(pc["recv"]).get("hid")
                if wl is None:
                    continue
                grows = [c for c in nodes(lp, "MethodCall") if c["m"] in ("push", "extend", "append", "extend_from_slice", "insert")
                         and peel(c["recv"]).get("hid") == wl]
                if not grows:
                    continue
                n += 1
                w_ += 1
                k_ = w_
                order = [id(x) for x in nodes(lp)]
                marks = [c for c in nodes(lp, "MethodCall") if c["m"] in ("insert", "entry") and
                         re.search(r"(HashMap|HashSet|BTreeMap|BTreeSet)<", peel(c["recv"]).get("ty") or "")]
                # .. for *every* node: the mark stands where each turn of the loop passes it, not inside the arm of one constructor
                from flow import uncond_nodes as _unc
                body_ = lp.get("body") if lp.get("body") is not None else lp
                every_turn = {id(x) for x in _unc(body_)}
                marks = [c for c in marks if id(c) in every_turn]
                first = bool(marks) and min(order.index(id(c)) for c in marks) < min(order.index(id(c)) for c in grows)
                rep.ob("GUARD", "%s|worklist#%d|skips-what-it-has-met" % (last(p), k_), first,
                       "the work list of TypeChecker::%s enters every node into a set and goes into the components of new nodes only" % last(p) if first else
                       "TypeChecker::%s pops type nodes off a work list and pushes their components back without a record of the nodes it has "
                       "met: unification performs no occurs check, so on a type that contains itself (`fn g do g(g) end`) the loop never "
                       "runs out of work - the compiler hangs without an error" % last(p), line_of(lp))
    rep.floor("GUARD", "work lists over type components", n, 3)


def guard_discipline(F, rep, fns=None, calls=None):
    """the visited set of a guarded structural walk means `this pair has been examined *by this walk*`:
    (fresh) every walk started from outside the function gets a set of its own - a set shared between the walks of
    different constraints (check_constraints runs Add, Sub, Mul .. over the same node pair) lets the first walk's entries
    silence the others; (roles) a walk whose verdict depends on the order of its two arguments (div: tuple / number is
    fine, number / tuple is not) must not mark the flipped pair as visited."""
    import tc, c03
    if fns is None:
        fns = {fn["_path"]: fn for fn in F.fns_in("sylt_compiler::typechecker::TypeChecker::")}
        calls = {p: {callee(c) for c in nodes(fn_body(fn)) if c.get("k") in ("Call", "MethodCall") and callee(c) in fns} for p, fn in fns.items()}
    guarded = {}
    for p, fn in fns.items():
        if p in calls.get(p, ()):
            # a *visited* collection is keyed by type nodes (a map from generic names to nodes is an environment, shared on purpose)
            sp = [i for i, prm in enumerate(fn["params"]) if re.search(r"(HashMap|HashSet|BTreeMap|BTreeSet)<\(?(sylt_common::)?TyID", prm["ty"])]
            if sp and any("TyID" in prm["ty"] for prm in fn["params"]):
                guarded[p] = sp[0]
    n = 0
    for caller_p, caller in sorted(fns.items()):
        body = fn_body(caller)
        fl = None
        k = 0
        for c, parents in walk(body):
            if c.get("k") != "MethodCall" or callee(c) not in guarded or callee(c) == caller_p:
                continue
            if fl is None:
                fl = Flow(caller, body)
            n += 1
            k += 1
            args = call_args(c)
            a = peel_clone(args[guarded[callee(c)]])
            while a.get("k") in ("AddrOf", "Unary", "Ref"):
                a = peel_clone(a.get("e"))
            fresh = a.get("k") == "Call" and last(callee(a) or "") == "new"
            why = "a set created for this walk"
            if not fresh and a.get("k") == "Path" and a.get("res") == "Local":
                o = fl.origin.get(a["hid"])
                if o and o["kind"] == "param":
                    fresh, why = True, "the caller's own walk (passed through)"
                elif o and o["kind"] == "let" and o.get("src") is not None:
                    init = peel_clone(o["src"])
                    is_new = init.get("k") == "Call" and last(callee(init) or "") == "new"
                    users = [x for x in nodes(body, "MethodCall") if callee(x) in guarded and callee(x) != caller_p
                             and any(y.get("hid") == a["hid"] for y in nodes(x, "Path"))]
                    in_loop_after_let = False
                    seen_let = False
                    for p in parents:
                        if p.get("k") == "Block" and any(st is o["node"] for st in p.get("stmts", [])):
                            seen_let = True
                        elif seen_let and p.get("k") in ("ForLoop", "While", "Loop"):
                            in_loop_after_let = True
                    fresh = is_new and len(users) == 1 and not in_loop_after_let
                    why = "a local set used by this walk only"
            rep.ob("GUARD", "%s->%s#%d|fresh-visited-set" % (last(caller_p), last(callee(c)), k), fresh,
                   ("%s starts %s with %s" % (last(caller_p), last(callee(c)), why)) if fresh else
                   ("%s starts %s with a visited set that other walks use as well (created outside the loop / shared between "
                    "handlers): pairs examined by an earlier constraint's walk are skipped by the next one, e.g. `a + b` on two "
                    "strings makes a later `a - b` on the same variables pass unchecked" % (last(caller_p), last(callee(c)))),
                   line_of(c))
    rep.floor("GUARD", "walks started with a visited set", n, 12)
    # roles
    for p, idx in sorted(guarded.items()):
        fn = fns[p]
        prm = fn["params"][idx]
        seen_h = {b["hid"] for b in pat_bindings(prm["pat"])}
        body = fn_body(fn)
        fl = Flow(fn, body)
        pairs = []
        for c in nodes(body, "MethodCall"):
            if c["m"] == "insert" and peel(c["recv"]).get("hid") in seen_h and c.get("args"):
                t = peel(c["args"][0])
                if t.get("k") == "Tup" and len(t["es"]) == 2:
                    pairs.append(tuple(peel(x).get("name") for x in t["es"]))
        flipped = any((y, x) in pairs for x, y in pairs if x != y)
        if not flipped:
            continue
        rows = tc.accept_table(F, fn)
        sym = None
        if rows:
            table, default = c03.expand_rows(rows)
            conc = {k: v for k, v in table.items() if "_" not in k}
            sym = all(conc.get((b, a), default) == v for (a, b), v in conc.items())
        rep.ob("GUARD", "%s|flipped-pair-only-if-symmetric" % last(p), bool(sym),
               ("TypeChecker::%s marks (a, b) and (b, a) as visited and its accept table is symmetric" % last(p)) if sym else
               ("TypeChecker::%s marks the flipped pair (b, a) as visited although its verdict depends on the argument order "
                "(tuple / number is accepted, number / tuple is not): after (t, n) / (n, t) has looked at t / n, the illegal "
                "n / t is skipped" % last(p)), fn["sp"])


# --------------------------------------------------------------------------- UNION-FIND

def union_find(F, rep):
    """The type nodes form a union-find forest; find() terminates only if parent links are acyclic.  Every write of a
    `parent` link must therefore be dominated by a test that the two nodes differ (union: early return on a == b), or
    happen inside `while let Some(next) = types[node].parent` for that same node (path compression towards the root)."""
    n = 0
    for fn in F.fns_in("sylt_compiler::typechecker::"):
        body = fn_body(fn)
        for a, parents in walk(body):
            if a.get("k") != "Assign":
                continue
            l = peel(a["l"])
            if not (l.get("k") == "Field" and l["name"] == "parent" and "TypeNode" in l.get("base_ty", "")):
                continue
            n += 1
            idx = peel(l["e"])
            child = peel(idx["i"]) if idx.get("k") == "Index" else None
            r = peel(a["r"])
            target = None
            for x in nodes(r, "Path"):
                if x.get("res") == "Local":
                    target = x
            key = "%s|parent-link" % last(fn["_path"])
            if child is None or target is None or child.get("k") != "Path":
                rep.ob("UNION-FIND", key, peel(r).get("k") == "Path" and norm_path(peel(r).get("path", "")).endswith("Option::None"),
                       "parent link written with an expression the rule cannot follow (%s)" % pp(a), line_of(a))
                continue
            ok = False
            why = ""
            # (1) path compression: inside `while let Some(..) = self.types[child].parent`
            for p in parents:
                if p.get("k") == "While":
                    c = peel(p["cond"])
                    if c.get("k") == "LetCond" and "parent" in pp(c["init"]) and any(
                            x.get("hid") == child.get("hid") for x in nodes(c["init"], "Path")):
                        ok = True
                        why = "inside `while let Some(_) = types[%s].parent`: %s is not a root, so it differs from the root it is linked to" % (child["name"], child["name"])
            # (2) union: an earlier `if x == y { return }` in an enclosing block on values the two locals derive from
            if not ok:
                fl = Flow(fn, body)
                def roots(e):
                    out = set()
                    seen = set()
                    todo = [e.get("hid")]
                    while todo:
                        h = todo.pop()
                        if h in seen or h is None:
                            continue
                        seen.add(h)
                        out.add(h)
                        o = fl.origin.get(h)
                        if o and o.get("src") is not None:
                            for x in nodes(o["src"], "Path"):
                                if x.get("res") == "Local":
                                    todo.append(x["hid"])
                    return out
                rc, rt = roots(child), roots(target)
                for p in parents:
                    if p.get("k") != "Block":
                        continue
                    for st in p["stmts"]:
                        e = peel(st.get("e") or st.get("init") or {})
                        if any(x is a for x in nodes(e)):
                            break
                        if e.get("k") == "If":
                            c = peel(e["c"])
                            if c.get("k") == "Binary" and c.get("op") == "Eq":
                                hl, hr = peel(c["l"]).get("hid"), peel(c["r"]).get("hid")
                                returns = any(x.get("k") == "Ret" for x in nodes(e["t"]))
                                if returns and ((hl in rc and hr in rt) or (hl in rt and hr in rc)) and hl != hr:
                                    ok = True
                                    why = "after `if %s == %s { return }`" % (peel(c["l"]).get("name"), peel(c["r"]).get("name"))
            rep.ob("UNION-FIND", key, ok,
                   ("parent link %s <- %s is written %s" % (child["name"], target["name"], why)) if ok else
                   ("parent link `types[%s].parent = Some(%s)` is written without a preceding test that the two nodes differ: when "
                    "both are the same root (possible after the recursive unification of a self-referential type) the node becomes "
                    "its own parent and every later find() loops forever" % (child["name"], target["name"])), line_of(a))
    rep.floor("UNION-FIND", "writes of TypeNode.parent", n, 2)


# --------------------------------------------------------------------------- total access to the token slices

PARTIAL_SLICE_METHODS = {"split_at", "split_at_mut", "get_unchecked", "get_unchecked_mut", "copy_from_slice", "swap", "chunks_exact",
                         "rotate_left", "rotate_right", "select_nth_unstable", "split_first", "split_last"}


def cursor_total(F, rep, rule="CURSOR-TOTAL"):
    """The parser's cursor is not bounded by the number of tokens: Context::skip counts a token for every step, also the
    end-of-input it reads past the last one (`new.curr += 1` runs while `token()` answers EOF), and error recovery leaves
    the cursor there.  So no position derived from the cursor may be used to index or slice `tokens` / `spans` directly:
    every access goes through an accessor that answers None / an empty iterator past the end."""
    n_total = 0
    bad = 0
    for fn in F.own_fns(["sylt_parser"]):
        k = 0
        for x in nodes(fn_body(fn)):
            kind = None
            if x.get("k") == "Index":
                bt = strip_ty(x.get("base_ty", "")).lstrip("&").replace("mut ", "").strip()
                if bt.startswith("[") and not re.search(r";\s*\w+\]$", bt) and ("Token" in bt or "Span" in bt):
                    kind = "`%s`" % pp(x)
            elif x.get("k") == "MethodCall":
                rt = strip_ty(x.get("recv_ty", "")).lstrip("&").replace("mut ", "").strip()
                if rt.startswith("[") and ("Token" in rt or "Span" in rt):
                    if x["m"] in PARTIAL_SLICE_METHODS:
                        kind = "`.%s(..)`" % x["m"]
                    elif x["m"] in ("get", "first", "last", "iter"):
                        n_total += 1
            if kind:
                k += 1
                bad += 1
                rep.ob(rule, "%s|partial-access#%d" % (last(fn["_path"], 2), k), False,
                       "%s reaches into the token/span slice with %s, which panics for a position past the end; the cursor "
                       "stands past the end after an error reported at the end of the input (`x :: fn ->` without a final "
                       "newline): the compiler aborts instead of printing the syntax error" % (last(fn["_path"], 2), kind), line_of(x))
    rep.ob(rule, "sylt_parser|token-slices-only-through-total-accessors", bad == 0,
           "tokens/spans are read through get / last / iter only (%d accesses), never by `[..]`" % n_total, sites=n_total)
    rep.floor(rule, "total accesses to the token and span slices", n_total, 4)


# --------------------------------------------------------------------------- census

UNWRAPS = {"core::option::Option::unwrap", "core::option::Option::expect", "core::result::Result::unwrap",
           "core::result::Result::expect", "core::result::Result::unwrap_err", "core::result::Result::expect_err"}


# every `unwrap` / `expect` outside the phase contracts, with the reason why the Option / Result is never empty / an error for
# any input; keyed by function and by the shape of the expression (locals as $1, $2 ..), so a rename keeps the key
UNWRAP_REVIEWED = {
    ("error::write_source_line_from_file_at", "$1.unwrap()"): "a line of a file that was read as UTF-8 when it was compiled",
    ("Compiler::file_from_namespace", "self.namespace_id_to_file.get(&$1).unwrap()"): "namespace ids are handed out from this very map",
    ("Resolver::add_help", "$3.help(self, $1, $2).unwrap_err()"): "called with an Err built on the spot (raise, then add help): help() keeps it an Err",
    ("Resolver::add_help_no_span", "$2.help_no_span($1).unwrap_err()"): "called with an Err built on the spot: help_no_span() keeps it an Err",
    ("Resolver::find_similar_name", "IntoIterator::into_iter([$1, $2]).min().unwrap()"): "the minimum of a two-element array",
    ("Resolver::namespace_type_list", "self.file_to_namespace.get($1).unwrap()"): "every Name::Namespace entry names a file registered in file_to_namespace by resolve()",
    ("Resolver::resolve_global_variables", "self.namespaces.get_mut(&$1).unwrap()"): "every module got its table in insert_namespace_and_add_definitions, the pass before",
    ("TypeChecker::expression", "$2.last().map(|branch| $1.condition.is_some()).unwrap()"): "an `if` has at least one branch (parser: if_expression pushes the first branch before any other exit)",
    ("TypeChecker::inner_bake_type", "self.namespace_to_file.get(&$1.file_id).unwrap()"): "spans carry the file id of a module that was loaded: the map holds every loaded module",
    ("statement::use_path", "$1.parent().unwrap()"): "the path of a source file that was opened has a parent (at least the empty path)",
    ("sylt_parser::tree", "sylt_common::library_source($1).unwrap()"): "a FileOrLib::Lib is only made by use_path for names library_name() knows",
    ("sylt_parser::tree", "sylt_common::library_source(\"preamble\").unwrap()"): "the preamble is compiled into the binary",
    ("sylt_parser::tree", "$2.iter().position(|(f, _)| (*$1 Eq FileOrLib::Lib(\"preamble\"))).expect(\"Error in the preamble code\")"):
        "with the library bundled the preamble is queued first and - being fixed text compiled into the binary - always parses, so it is in the list",
    ("statement::statement", "From::from(&$1.trim_start_matches(\"/\").trim_end_matches(\"/\").to_string()).file_stem().unwrap()"):
        "path() yields `/`? (identifier `/`)* identifier?; the lone `/` is rejected two lines above, every other path has an identifier segment",
    ("statement::statement", "From::from(&$1.trim_start_matches(\"/\").trim_end_matches(\"/\").to_string()).file_stem().unwrap().to_str().unwrap()"):
        "the segments are identifier tokens (ASCII): the stem is valid UTF-8",
}


def census(F, rep, contracts):
    rows = []
    unlisted = []
    for fn in F.own_fns(CRATES):
        if fn["_path"].startswith("sylt_common::error::test"):
            continue
        body = fn_body(fn)
        for n, parents in walk(body):
            k = n.get("k")
            kind = None
            if k == "Call" and is_panic_call(n):
                mac = panic_macro(n) if (n.get("mac") or n.get("f", {}).get("mac")) else "panic"
                # format-related internal panics of derived code are not ours
                kind = "explicit:" + str(mac)
            elif k == "MethodCall" and callee(n) in UNWRAPS:
                kind = "unwrap:" + n["m"]
            elif k == "Index":
                bt = strip_ty(n.get("base_ty", ""))
                if bt.startswith(("alloc::vec::Vec", "[", "std::collections::hash::map::HashMap", "alloc::collections::btree::map::BTreeMap")):
                    kind = "index:" + re.sub(r"<.*", "", bt).split("::")[-1]
            if kind is None:
                continue
            status = "contract:" + contracts[id(n)] if id(n) in contracts else guarded(n, parents) or "unreviewed"
            if status == "unreviewed" and kind.startswith("unwrap"):
                table = {(f_, _norm_shape(sh_)): r_ for (f_, sh_), r_ in UNWRAP_REVIEWED.items()}
                why = table.get((last(fn["_path"], 2), _norm_shape(_shape(n))))
                for d_ in (1, 2, 3):
                    why = why or table.get((last(fn["_path"], 2), _norm_shape(_shape(_inline_lets(n, fn, d_)))))
                if why:
                    status = "reviewed:" + why
                else:
                    unlisted.append((last(fn["_path"], 2), _shape(n), line_of(n)))
            rows.append((fn["_crate"], last(fn["_path"], 2), kind, status, line_of(n)))
    by_status = {}
    for r in rows:
        by_status.setdefault(r[3].split(":")[0], []).append(r)
    explicit = [r for r in rows if r[2].startswith("explicit")]
    un_explicit = [r for r in explicit if r[3] == "unreviewed"]
    rep.ob("CENSUS", "explicit-divergences-have-contracts", len(un_explicit) <= len(ALLOWED_EXPLICIT) and
           all((r[1], r[2]) in ALLOWED_EXPLICIT for r in un_explicit),
           "%d explicit divergences (unreachable!/panic!/assert!) in the four crates: %d tied to a contract K1-K16, unexplained: %s" % (
               len(explicit), len(explicit) - len(un_explicit), [(r[1], r[2], r[4]) for r in un_explicit if (r[1], r[2]) not in ALLOWED_EXPLICIT] or "none"),
           sites=len(explicit))
    for fn_, shape_, where_ in unlisted:
        rep.ob("CENSUS", "unwrap|%s|%s" % (fn_, shape_[:90]), False,
               "%s calls `%s`, which panics when the value is absent, and the site is neither tied to a phase contract nor in the "
               "reviewed table (rules/c07.py UNWRAP_REVIEWED) with the reason why it cannot be absent for any input: e.g. the closest "
               "name among the variants of an enum declared without variants (`Never :: enum end`, `Never.Ever`)" % (fn_, shape_[:90]), where_)
    # a reviewed reason that leans on a guard a few lines above holds while that guard stands: the premises the table names
    premises_of_reviewed_unwraps(F, rep)
    rep.ob("CENSUS", "unwraps-reviewed", not unlisted, "every unwrap / expect outside the contracts is in the reviewed table (%d unlisted)" % len(unlisted))
    rep.ob("CENSUS", "sites", True, "%d panic-capable sites: %s" % (len(rows), {k: len(v) for k, v in sorted(by_status.items())}), sites=len(rows))
    rep.floor("CENSUS", "panic-capable sites", len(rows), 75)
    for r in rows:
        if r[3] == "unreviewed":
            rep.info("NOTE unreviewed panic-capable site: %s %s %s @ %s" % r[:1] + r[1:3] + r[4:] if False else
                     "NOTE unreviewed panic-capable site: %s %s (%s) @ %s" % (r[0], r[1], r[2], r[4]))
    rep.extra["census"] = {k: len(v) for k, v in by_status.items()}


# explicit divergences that are not phase contracts about user input (reviewed one by one)
ALLOWED_EXPLICIT = {
    ("sylt_parser::tree", "explicit:expect"),
}


def guarded(n, parents):
    """index / unwrap dominated by a recognised test on the same receiver in an enclosing condition"""
    txt = None
    if n.get("k") == "Index":
        txt = pp(peel(n["e"]))
    elif n.get("k") == "MethodCall":
        txt = pp(peel(n["recv"]))
    if txt is None:
        return None
    for p in reversed(parents):
        if p.get("k") == "If":
            c = pp(p["c"])
            if ("contains_key" in c or "is_empty" in c or "len()" in c or "is_some" in c) and txt.split("[")[0].split(".")[0] in c:
                return "guarded"
    return None


# --------------------------------------------------------------------------- unsigned subtraction

UNSIGNED_SUB = {
    # (function, "lhs Sub rhs" as printed): why lhs >= rhs
    ("error::write_source_line_from_file_at", "(($1 Add 1) Sub $2)"): "start_line = max(line - 2 (saturating), 1) <= line + 1",
    ("error::write_source_line_from_file_at", "($1 Sub 1)"): "start_line = max(.., 1) >= 1",
    ("error::write_source_line_from_stdlib", "(($1 Add 1) Sub $2)"): "start_line = max(line - 2 (saturating), 1) <= line + 1",
    ("error::write_source_line_from_stdlib", "($1 Sub 1)"): "start_line = max(.., 1) >= 1",
    ("error::write_source_span_at", "($1.col_end Sub $1.col_start)"):
        "a span's columns are both measured from the same last_newline and the token's byte range has start <= end (C17 UNIT)",
    ("sylt_tokenizer::string_to_tokens", "($1[$2.start].unwrap() Sub $3)"):
        "last_newline is the character index of a newline met before this token",
    ("sylt_tokenizer::string_to_tokens", "($1[$2.end].unwrap() Sub $3)"):
        "last_newline is the character index of a newline met before this token",
}


def list_recursion(F, rep, rule="STACK-DEPTH"):
    """Recursion that follows the *nesting* of the input is bounded by the nesting depth (which the property bounds).  A function
    that calls itself once per *element of a flat list* - it returns the list, and puts one element in front of what the recursive
    call returned - needs a stack frame per element: an enum with a few thousand variants, a long parameter list or a long
    literal overflows the native stack (abort, no diagnostic) although nothing in it is nested."""
    n = 0
    for fn in F.own_fns(CRATES):
        p_ = fn["_path"]
        if "Vec<" not in (fn.get("ret") or "") or fn.get("_crate") != "sylt_parser":
            continue  # the parsers: their recursion follows the token stream (the other passes follow the tree the parser built)
        body = fn_body(fn)
        recs = [c for c in nodes(body) if c.get("k") in ("Call", "MethodCall") and callee(c) == p_]
        if not recs:
            continue
        n += 1
        fl = Flow(fn, body)
        res_h = set()
        for hid, o in fl.origin.items():
            if o.get("src") is not None and any(x is r for r in recs for x in nodes(o["src"])):
                res_h.add(hid)
        grows = [c for c in nodes(body, "MethodCall") if c["m"] in ("insert", "push", "push_front", "extend") and peel(c["recv"]).get("hid") in res_h]
        rep.ob(rule, "%s|one-frame-per-list-element" % last(p_, 2), not grows,
               "%s recurses, but not once per element of the list it returns" % last(p_, 2) if not grows else
               "%s builds the list it returns by calling itself for the rest of the list and adding one element to the result: the "
               "depth of the native stack is the *length* of the list - an enum with 4000 variants (nothing nested) aborts the compiler "
               "with a stack overflow and no diagnostic" % last(p_, 2), line_of(grows[0]) if grows else fn["sp"])
    rep.ob(rule, "census", True, "%d self-recursive functions that return a list" % n, sites=n)


def _norm_shape(sh):
    """a shape without the adaptors that do not change the value (`&`, .clone(), .to_string(), .to_owned(), .as_str(), .into())"""
    sh = re.sub(r"\.(clone|to_string|to_owned|as_str|into|as_ref|borrow)\(\)", "", sh)
    return sh.replace("&", "").replace("(*", "(").replace(" ", "")


def _inline_lets(n, fn, depth=4):
    """n with every local that a plain `let x = <expr>` introduced replaced by that expression (so that naming an intermediate
    value does not change the shape a site is keyed by)"""
    import copy
    fl = Flow(fn, fn_body(fn))

    def sub(x, d):
        if isinstance(x, list):
            return [sub(y, d) for y in x]
        if not isinstance(x, dict):
            return x
        if x.get("k") == "Path" and x.get("res") == "Local" and d > 0:
            o = fl.origin.get(x.get("hid"))
            if o and o["kind"] == "let" and o.get("path") == () and isinstance(o.get("src"), dict):
                return sub(copy.deepcopy(o["src"]), d - 1)
        return {k_: sub(v_, d) for k_, v_ in x.items()}
    return sub(copy.deepcopy(n), depth)


def _shape(n):
    """pp() of an expression with local variable names replaced by $1, $2 .. in order of first appearance, so that the
    key of a site survives a rename of its locals (field and method names stay)"""
    import copy
    m = copy.deepcopy(n)
    order = {}
    for x in nodes(m, "Path"):
        if x.get("res") == "Local" and x.get("name") != "self":
            order.setdefault(x["hid"], "$%d" % (len(order) + 1))
            x["name"] = order[x["hid"]]
    return re.sub(r"\s+", " ", pp(m))


def unsigned_sub(F, rep):
    """`a - b` on unsigned integers panics (debug) or wraps (release) when a < b.  Every such subtraction in the five
    crates is listed with the reason why it cannot underflow; one that is not listed - or whose reason is an invariant
    some function can break - is a violation.  saturating_sub / checked_sub need no reason."""
    n = 0
    seen = set()
    for fn in F.own_fns(["sylt_parser", "sylt_compiler", "sylt_tokenizer", "sylt_common", "sylt"]):
        if "::test" in fn["_path"] or fn["_path"].startswith("sylt::formatter"):
            continue
        for b in nodes(fn_body(fn)):
            is_sub = (b.get("k") == "Binary" and b.get("op") == "Sub") or (b.get("k") == "AssignOp" and b.get("op") in ("Sub", "SubAssign"))
            if not is_sub:
                continue
            ty = b.get("ty") if b.get("k") == "Binary" else peel(b["l"]).get("ty")
            if not ty or not any(t in ty for t in ("usize", "u8", "u16", "u32", "u64")):
                continue
            n += 1
            key = (last(fn["_path"], 2), _shape(b))
            seen.add(key)
            why = UNSIGNED_SUB.get(key)
            ok = why is not None
            if ok and key[0].startswith("error::write_source_line"):
                # the reason rests on how start_line is computed: check it
                src = re.sub(r"\s+", " ", pp(fn_body(fn)))
                ok = "saturating_sub(2)" in src and ".max(1)" in src
            rep.ob("UNSIGNED-SUB", "%s|%s" % key, ok,
                   ("`%s` cannot underflow: %s" % (key[1], why)) if ok else
                   ("`%s` in %s is an unsigned subtraction with no guard and no invariant that every writer of its operands "
                    "keeps%s" % (key[1], key[0], ": Context::prev() moves `curr` backwards while `last_statement` stays, so `curr` "
                                 "can end up below it (`loop c do .. end end` panics with `attempt to subtract with overflow`)"
                                 if "last_statement" in pp(b) else "")), line_of(b))
    rep.floor("UNSIGNED-SUB", "unsigned subtractions", n, 7)


# --------------------------------------------------------------------------- counter-indexed accesses

def index_guard(F, rep):
    """`X[i]` where i counts the elements of *another* collection (`for (i, v) in Y.iter().enumerate()`): in range only if
    an exit earlier in the loop body fires as soon as i reaches X.len().  The guard is evaluated, not recognised by its
    spelling: it must be true for i == len (then, by induction from i = 0, i < len whenever the index is reached)."""
    n = 0
    for fn in F.own_fns(CRATES):
        if "::test" in fn["_path"]:
            continue
        body = fn_body(fn)
        fl = None
        for ix, parents in walk(body):
            if ix.get("k") != "Index":
                continue
            i = peel(ix["i"])
            if i.get("k") != "Path" or i.get("res") != "Local":
                continue
            if fl is None:
                fl = Flow(fn, body)
            o = fl.origin.get(i["hid"])
            if not (o and o["kind"] == "for" and o["path"][:1] == (("tuple", 0),)
                    and any(c["m"] == "enumerate" for c in nodes(o["src"], "MethodCall"))):
                continue
            base = peel(ix["e"])
            over = [x.get("hid") for x in nodes(o["src"], "Path") if x.get("res") == "Local"]
            if base.get("hid") in over:
                continue  # indexing the collection that is being enumerated
            n += 1
            loop = o["node"]
            ok = False
            guard_txt = None
            here = positions_of(ix)
            for cnd in nodes(loop["body"], "If"):
                if positions_of(cnd) >= here:
                    continue
                c = peel(cnd["c"])
                exits = any(x.get("k") in ("Ret", "Break", "Continue") for x in nodes(cnd["t"])) or tc.is_err_value(cnd["t"])
                if c.get("k") != "Binary" or not exits:
                    continue
                def side(e):
                    e = peel(e)
                    if e.get("k") == "Path" and e.get("hid") == i["hid"]:
                        return "i"
                    if e.get("k") == "MethodCall" and e["m"] == "len" and peel(e["recv"]).get("hid") == base.get("hid"):
                        return "len"
                    return None
                l, r = side(c["l"]), side(c["r"])
                if {l, r} != {"i", "len"}:
                    continue
                guard_txt = pp(c)
                op = c["op"]
                fires_at_len = all({"Eq": a == b, "Ne": a != b, "Lt": a < b, "Le": a <= b, "Gt": a > b, "Ge": a >= b}[op]
                                   for nlen in (0, 1, 3) for a, b in [((nlen, nlen) if l == "i" else (nlen, nlen))])
                # evaluate with the operands in their written order at i == len
                vals = {"i": 2, "len": 2}
                a, b = vals[l], vals[r]
                fires_at_len = {"Eq": a == b, "Ne": a != b, "Lt": a < b, "Le": a <= b, "Gt": a > b, "Ge": a >= b}.get(op, False)
                if fires_at_len:
                    ok = True
            rep.ob("INDEX-GUARD", "%s|%s" % (last(fn["_path"], 2), re.sub(r"\s+", " ", pp(ix))[:40]), ok,
                   ("`%s` is reached only while the counter is below the length: the exit `%s` fires at i == len" % (pp(ix)[:30], guard_txt)) if ok else
                   ("`%s` is indexed with the counter of another collection and no earlier exit in the loop body fires when the "
                    "counter reaches the length%s: one element too many (a type written with more type arguments than it has "
                    "parameters) panics with `index out of bounds`" % (pp(ix)[:30], " (the guard `%s` is false at i == len)" % guard_txt if guard_txt else "")),
                   line_of(ix))
    rep.floor("INDEX-GUARD", "counter-indexed accesses", n, 1)


def positions_of(n):
    sp = n.get("sp") if isinstance(n, dict) else None
    try:
        _f, l, c = sp.rsplit(":", 2)
        return (int(l), int(c))
    except (AttributeError, ValueError):
        return (0, 0)


# --------------------------------------------------------------------------- one visit per node

VISITOR_ARG_TYPES = ("name_resolution::Expression", "name_resolution::Statement", "sylt_parser::expression::Expression",
                     "sylt_parser::statement::Statement", "sylt_parser::Expression", "sylt_parser::Statement",
                     "name_resolution::IfBranch", "name_resolution::CaseBranch")
ITER_ADAPTORS = {"iter", "iter_mut", "into_iter", "enumerate", "rev", "zip", "skip", "take", "peekable", "cloned", "copied", "by_ref",
                 "as_ref", "as_mut", "unwrap", "clone", "borrow", "deref", "as_slice", "as_deref", "to_vec", "chain", "filter"}
ELEMENT_SELECTORS = {"last", "first", "get", "next", "last_mut", "first_mut", "get_mut", "nth",
                     "find", "max_by_key", "min_by_key", "next_back", "peek"}


def _pat_paths(p, prefix=()):
    """[(binding hid, path)] - the position of every binding inside a pattern"""
    out = []
    if not isinstance(p, dict):
        return out
    k = p.get("k")
    if k == "Binding":
        out.append((p["hid"], prefix))
        if p.get("sub"):
            out += _pat_paths(p["sub"], prefix)
    elif k == "Struct":
        v = last(norm_path(p.get("path")) or "?")
        for f in p["fields"]:
            out += _pat_paths(f["pat"], prefix + ("%s.%s" % (v, f["name"]),))
    elif k == "TupleStruct":
        v = last(norm_path(p.get("path")) or "?")
        for i, x in enumerate(p["pats"]):
            # Some(x) / Ok(x) / &x look through: they select nothing inside the node
            out += _pat_paths(x, prefix if v in ("Some", "Ok", "Err") else prefix + ("%s.%d" % (v, i),))
    elif k == "Tuple":
        for i, x in enumerate(p["pats"]):
            out += _pat_paths(x, prefix + ("#%d" % i,))
    elif k == "Or":
        for x in p["pats"]:
            out += _pat_paths(x, prefix)
    elif k in ("Ref", "Box", "Deref", "GuardPat"):
        out += _pat_paths(p["pat"], prefix)
    elif k == "Slice":
        for x in p["before"] + ([p["mid"]] if p.get("mid") else []) + p["after"]:
            out += _pat_paths(x, prefix + ("*",))
    return out


PASS_PREFIXES = ["sylt_compiler::typechecker::TypeChecker::", "sylt_compiler::name_resolution::Resolver::",
                 "sylt_compiler::intermediate::IRCodeGen::", "sylt_compiler::dependency::"]


def _visiting_functions(F):
    visiting = set()
    for pre in PASS_PREFIXES:
        for fn in F.fns_in(pre):
            if any(any(t in prm["ty"] for t in VISITOR_ARG_TYPES) for prm in fn["params"]):
                visiting.add(fn["_path"])
    graph = {}
    for p_ in visiting:
        graph[p_] = {callee(c) for c in nodes(fn_body(F.fns[p_])) if c.get("k") in ("MethodCall", "Call") and callee(c) in visiting}

    def reach(a):
        seen_, todo = set(), list(graph[a])
        while todo:
            q = todo.pop()
            if q not in seen_:
                seen_.add(q)
                todo += list(graph[q])
        return seen_
    reachable = {p_: reach(p_) for p_ in visiting}
    cyclic = {p_ for p_ in visiting if p_ in reachable[p_]}
    return {p_ for p_ in visiting if p_ in cyclic or reachable[p_] & cyclic}


KEYED_TYPES = ("alloc::collections::btree::", "std::collections::hash::", "hashbrown::")


def visit_loops_complete(F, rep, rule="VISIT-ALL"):
    """a loop that hands each element of a list of syntax nodes to a visiting function visits all of them: it is not left
    early (`break`, a `return` that is not an error) and no element is passed over before its visit (`continue`).  What is
    not visited is not resolved / not checked / not lowered: `ret 1` followed by a use of an undeclared name is accepted when
    the resolver stops at the `ret`."""
    from tc import is_err_value
    visiting = _visiting_functions(F)
    n = 0
    for pre in PASS_PREFIXES:
        for fn in F.fns_in(pre):
            body = fn_body(fn)
            k_ = 0
            for lp in nodes(body, "ForLoop"):
                lv = {b["hid"] for b in pat_bindings(lp["pat"])}
                visits = [c for c in nodes(lp["body"]) if c.get("k") in ("MethodCall", "Call") and callee(c) in visiting and
                          any(x.get("hid") in lv for a in c["args"] for x in nodes(a, "Path"))]
                if not visits:
                    continue
                n += 1
                k_ += 1
                order = [id(x) for x in nodes(lp["body"])]
                first_visit = min(order.index(id(v)) for v in visits)
                inner = [y for y in nodes(lp["body"]) if y.get("k") in ("ForLoop", "While", "Loop", "Closure")]
                bad = []
                for x in nodes(lp["body"]):
                    if any(x is z for y in inner for z in nodes(y) if z is not y):
                        continue
                    if x.get("k") == "Break":
                        bad.append(("break", x))
                    elif x.get("k") == "Continue" and order.index(id(x)) < first_visit:
                        bad.append(("continue before the visit", x))
                    elif x.get("k") == "Ret" and x.get("e") is not None and not is_err_value(x["e"]) and \
                            not (callee(peel(x["e"])) or "").endswith("Result::Err"):
                        bad.append(("return", x))
                # .. and the loop ranges over the list itself: a keyed copy made in this function (a map / set collected from the
                # list) has merged the elements with equal keys - `P { x: 1 + "a", x: 1 }` visits only the last `x`
                base = peel(lp["iter"])
                while isinstance(base, dict) and base.get("k") == "MethodCall":
                    base = peel(base["recv"])
                if isinstance(base, dict) and base.get("k") == "Path" and base.get("res") == "Local" and \
                        strip_ty(base.get("ty") or "").startswith(KEYED_TYPES) and \
                        any(t in (base.get("ty") or "") for t in VISITOR_ARG_TYPES):
                    made_here = any(st.get("k") == "Let" and any(b["hid"] == base["hid"] for b in pat_bindings(st["pat"]))
                                    for st in nodes(body, "Let"))
                    if made_here:
                        bad.append(("the loop ranges over `%s`, a %s built in this function: elements with equal keys are merged" % (
                            base.get("name"), strip_ty(base["ty"]).split("<")[0].split("::")[-1]), lp))
                rep.ob(rule, "%s|loop#%d" % (last(fn["_path"], 2), k_), not bad,
                       "every element reaches %s" % last(callee(visits[0])) if not bad else
                       "the loop in %s that hands each element to %s can leave elements out (`%s`, line %s): what is not visited is "
                       "not resolved, checked or lowered - code after a `ret` with an undeclared name in it is accepted" % (
                           last(fn["_path"], 2), last(callee(visits[0])), bad[0][0], (line_of(bad[0][1]) or "?").split(":")[-2]),
                       line_of(bad[0][1]) if bad else line_of(lp))
    rep.floor(rule, "loops over lists of syntax nodes", n, 10)


def single_visit(F, rep, rule="RE-CHECK"):
    """A pass that visits a child twice on one path does the whole work below that child twice - and the child can contain
    the construct that is being visited (a block whose last statement is an `if` whose block ends in an `if` ..), so every
    nesting level doubles the time: 2^depth for a program that is only `depth` lines long.  For every function of the type
    checker, the resolver and the lowering that hands syntax nodes to a visiting function: no two such calls on one path
    receive the same node or a node and one of its parts."""
    prefixes = ["sylt_compiler::typechecker::TypeChecker::", "sylt_compiler::name_resolution::Resolver::",
                "sylt_compiler::intermediate::IRCodeGen::", "sylt_compiler::dependency::"]
    visiting = set()
    for pre in prefixes:
        for fn in F.fns_in(pre):
            if any(any(t in prm["ty"] for t in VISITOR_ARG_TYPES) for prm in fn["params"]):
                visiting.add(fn["_path"])
    # .. of which only those matter that walk on into the node: a function that can reach a cycle of visiting functions
    graph = {}
    for p_ in visiting:
        graph[p_] = {callee(c) for c in nodes(fn_body(F.fns[p_])) if c.get("k") in ("MethodCall", "Call") and callee(c) in visiting}

    def reach(a):
        seen_, todo = set(), list(graph[a])
        while todo:
            q = todo.pop()
            if q not in seen_:
                seen_.add(q)
                todo += list(graph[q])
        return seen_
    reachable = {p_: reach(p_) for p_ in visiting}
    cyclic = {p_ for p_ in visiting if p_ in reachable[p_]}
    visiting = {p_ for p_ in visiting if p_ in cyclic or reachable[p_] & cyclic}
    rep.ob(rule, "visiting-functions", len(visiting) >= 10,
           "%d functions take a syntax node and recurse into it (%s ..)" % (len(visiting), ", ".join(sorted(last(v, 2) for v in visiting)[:6])),
           sites=len(visiting))
    nf = npairs = 0
    for pre in prefixes:
        for fn in F.fns_in(pre):
            body = fn_body(fn)
            src = {}     # hid -> (source expression, path inside it, "each" when the binding ranges over the elements)
            par = {}
            for x, parents in walk(body):
                par[id(x)] = parents
                k = x.get("k")
                if k == "Let" and x.get("init") is not None:
                    for h, pth in _pat_paths(x["pat"]):
                        src[h] = (x["init"], pth, False)
                elif k == "LetCond":
                    for h, pth in _pat_paths(x["pat"]):
                        src[h] = (x["init"], pth, False)
                elif k == "Match":
                    for a in x["arms"]:
                        for h, pth in _pat_paths(a["pat"]):
                            src[h] = (x["scrut"], pth, False)
                elif k == "ForLoop":
                    for h, pth in _pat_paths(x["pat"]):
                        src[h] = (x["iter"], pth, True)
                elif k == "MethodCall":
                    for a in x["args"]:
                        a0 = peel(a)
                        if isinstance(a0, dict) and a0.get("k") == "Closure":
                            for prm in a0.get("params", []):
                                for h, pth in _pat_paths(prm.get("pat", prm) if isinstance(prm, dict) else prm):
                                    src[h] = (x["recv"], pth, True)

            def tails(e, ch=frozenset()):
                """[(expression, choices)] a match / if / block can evaluate to; choices = which arm of which match was taken"""
                e = peel(e)
                if not isinstance(e, dict):
                    return []
                k = e.get("k")
                if k == "Match":
                    return [t for i_, a_ in enumerate(e["arms"]) for t in tails(a_["body"], ch | {(id(e), i_)})]
                if k == "If":
                    return tails(e["t"], ch | {(id(e), 0)}) + (tails(e["e"], ch | {(id(e), 1)}) if e.get("e") is not None else [])
                if k == "Block":
                    return tails(e["e"], ch) if e.get("e") is not None else []
                return [(e, ch)]

            arm_of_binding = {}
            arm_body = {}
            for m_ in nodes(body, "Match"):
                for i_, a_ in enumerate(m_["arms"]):
                    arm_body[(id(m_), i_)] = a_["body"]
                    for h_, _p in _pat_paths(a_["pat"]):
                        arm_of_binding[h_] = (id(m_), i_)

            def taken_in_arm(hid, source):
                """`match list.last() { Some(x) => { list.pop(); .. } }`: on that arm x is no longer an element of `list`"""
                s0 = peel(source)
                while isinstance(s0, dict) and s0.get("k") == "MethodCall" and s0["m"] in ITER_ADAPTORS:
                    s0 = peel(s0["recv"])
                if not (isinstance(s0, dict) and s0.get("k") == "MethodCall" and s0["m"] in ("last", "last_mut", "first", "first_mut")):
                    return False
                lst = peel(s0["recv"])
                arm = arm_body.get(arm_of_binding.get(hid))
                if arm is None or not (lst.get("k") == "Path" and lst.get("res") == "Local"):
                    return False
                want = ("pop",) if s0["m"].startswith("last") else ("remove", "pop_front")
                return any(c_["m"] in want and peel(c_["recv"]).get("hid") == lst["hid"] for c_ in nodes(arm, "MethodCall"))

            def roots(e, depth=0):
                """[(root hid, selector path, choices)] - every place the value of `e` can come from"""
                e = peel(e)
                if not isinstance(e, dict) or depth > 40:
                    return []
                k = e.get("k")
                if k == "Path" and e.get("res") == "Local":
                    own = frozenset([arm_of_binding[e["hid"]]]) if e["hid"] in arm_of_binding else frozenset()
                    if e["hid"] in src:
                        s_, pth, each = src[e["hid"]]
                        out = []
                        for t, ch in tails(s_):
                            p2 = list(pth)
                            # a tuple built on the spot is taken apart again by the pattern: follow the component
                            while p2 and p2[0].startswith("#") and isinstance(t, dict) and t.get("k") == "Tup":
                                i_ = int(p2[0][1:])
                                if i_ >= len(t["es"]):
                                    break
                                t = peel(t["es"][i_])
                                p2 = p2[1:]
                            for r, sel, ch2 in roots(t, depth + 1):
                                # positional parts of an iterator's tuple items (enumerate / zip) select nothing inside a node; the
                                # two halves of a split (split_last / split_first / split_at) are disjoint parts of the list
                                p3 = tuple(p2) if (sel and sel[-1] in ("split", "splitat")) else tuple(x_ for x_ in p2 if not x_.startswith("#"))
                                if sel and sel[-1] == "*" and not each and taken_in_arm(e["hid"], s_):
                                    sel = sel[:-1] + ("taken:%s" % line_of(s_),)
                                out.append((r, sel + (("*",) if each else ()) + p3, ch | ch2 | own))
                        return out
                    return [(e["hid"], (), own)]
                if k == "MethodCall":
                    if e["m"] in ITER_ADAPTORS:
                        return roots(e["recv"], depth + 1)
                    if e["m"] in ELEMENT_SELECTORS:
                        return [(r, sel + ("*",), ch) for r, sel, ch in roots(e["recv"], depth + 1)]
                    if e["m"] in ("pop", "remove", "swap_remove", "pop_front", "pop_back", "split_off", "drain"):
                        # taken out of the list: not among the elements a later iteration sees
                        return [(r, sel + ("taken:%s" % line_of(e),), ch) for r, sel, ch in roots(e["recv"], depth + 1)]
                    if e["m"] in ("split_last", "split_first", "split_last_mut", "split_first_mut"):
                        return [(r, sel + ("split",), ch) for r, sel, ch in roots(e["recv"], depth + 1)]
                    if e["m"] in ("split_at", "split_at_mut"):
                        return [(r, sel + ("splitat",), ch) for r, sel, ch in roots(e["recv"], depth + 1)]
                    return []
                if k == "Call" and (callee(e) or "").split("::")[-1] in ("Some", "Ok") and e["args"]:
                    return roots(e["args"][0], depth + 1)
                if k == "Field":
                    return [(r, sel + (".%s" % e["name"],), ch) for r, sel, ch in roots(e["e"], depth + 1)]
                if k == "Index":
                    i_ = peel(e["i"])
                    if isinstance(i_, dict) and (i_.get("k") == "Range" or "Range" in (i_.get("ty") or "")):
                        return roots(e["e"], depth + 1)      # a sub-slice: still "the list"
                    return [(r, sel + ("*",), ch) for r, sel, ch in roots(e["e"], depth + 1)]
                if k == "Try":
                    return roots(e["e"], depth + 1)
                return []

            calls = []
            for x, parents in walk(body):
                if x.get("k") in ("MethodCall", "Call") and callee(x) in visiting:
                    for a in x["args"]:
                        t = (a.get("ty") or "") if isinstance(a, dict) else ""
                        if any(v in t for v in VISITOR_ARG_TYPES):
                            for r, sel, ch in roots(a):
                                calls.append((x, parents, r, sel, ch))
            if not calls:
                continue
            nf += 1
            seen = set()
            for i in range(len(calls)):
                for j in range(i + 1, len(calls)):
                    a, pa, ra, sa, cha = calls[i]
                    b, pb, rb, sb, chb = calls[j]
                    if ra != rb or a is b:
                        continue
                    # values that exist only on different arms of one match never meet
                    da, db = dict(cha), dict(chb)
                    if any(k_ in db and db[k_] != v_ for k_, v_ in da.items()):
                        continue
                    if _split_disjoint(sa, sb):
                        continue
                    na, nb_ = _split_norm(sa), _split_norm(sb)
                    short, long_ = (na, nb_) if len(na) <= len(nb_) else (nb_, na)
                    if long_[:len(short)] != short:
                        continue
                    if _exclusive(pa + (a,), pb + (b,)):
                        continue
                    npairs += 1
                    key = "%s|%s+%s|%s" % (last(fn["_path"], 2), last(callee(a)), last(callee(b)), "/".join(long_) or "same-node")
                    if key in seen:
                        continue
                    seen.add(key)
                    rep.ob(rule, key, False,
                           "%s hands the same part of the tree to a visiting function twice on one path: %s(%s) at line %s and %s(%s) at "
                           "line %s. Whatever is nested below is processed twice at every level: a block that ends in an `if` whose "
                           "block ends in an `if` .. takes 2^depth steps (depth 20: 6 s, depth 30: hours, for 60 short lines)" % (
                               last(fn["_path"], 2), last(callee(a)), "/".join(sa) or ".", line_of(a).split(":")[-2], last(callee(b)),
                               "/".join(sb) or ".", line_of(b).split(":")[-2]), line_of(b))
            rep.ob(rule, "%s|calls" % last(fn["_path"], 2), True, "%d visiting calls compared pairwise" % len(calls), sites=len(calls))
    rep.floor(rule, "functions that hand syntax nodes to visiting functions", nf, 15)


def _split_disjoint(sa, sb):
    """the two paths go into different halves of one split of the same list"""
    for i in range(min(len(sa), len(sb)) - 1):
        if sa[i] != sb[i]:
            return False
        if sa[i] in ("split", "splitat"):
            return sa[i + 1].startswith("#") and sb[i + 1].startswith("#") and sa[i + 1] != sb[i + 1]
    return False


def _split_norm(sel):
    """(split, #0) is one element of the list, (split, #1) the list without it, both halves of split_at are lists"""
    out, i = [], 0
    while i < len(sel):
        if sel[i] in ("split", "splitat") and i + 1 < len(sel) and sel[i + 1].startswith("#"):
            if sel[i] == "split" and sel[i + 1] == "#0":
                out.append("*")
            i += 2
        else:
            out.append(sel[i])
            i += 1
    return tuple(out)


def _exclusive(pa, pb):
    """two nodes lie in different arms of one match / different branches of one if (or one is in a closure/loop that the
    other is not - still the same path, so not exclusive)"""
    n = 0
    while n < len(pa) and n < len(pb) and pa[n] is pb[n]:
        n += 1
    if n == 0 or n >= len(pa) or n >= len(pb):
        return False
    anc = pa[n - 1]
    ca, cb = pa[n], pb[n]
    if anc.get("k") == "Match":
        arms = anc["arms"]
        return any(ca is a_ for a_ in arms) and any(cb is a_ for a_ in arms)
    if anc.get("k") == "If":
        return (ca is anc.get("t") and cb is anc.get("e")) or (ca is anc.get("e") and cb is anc.get("t"))
    return False


# --------------------------------------------------------------------------- indices into the type table are minted

SHRINKING = {"truncate", "pop", "remove", "swap_remove", "clear", "drain", "retain", "split_off", "set_len", "dedup", "resize"}


def minted_type_ids(F, rep, contracts, rule="MINTED"):
    """`self.types[i]` cannot be out of range: (M1) a TyID is only made from the length of the table immediately before a
    push (push_type), or from the number inside another TyID / a position below `types.len()`; (M2) the table never
    shrinks; (M3) every index into the table is such a number.  By induction every TyID ever made is a valid position."""
    TCs = "sylt_compiler::typechecker::TypeChecker"
    n_ctor = n_idx = 0

    def is_types_field(e):
        e = peel(e)
        return isinstance(e, dict) and e.get("k") == "Field" and e["name"] == "types" and TCs in (e.get("base_ty") or "")

    shrink = []
    for fn in F.own_fns(["sylt_compiler", "sylt_common", "sylt", "sylt_parser"]):
        body = fn_body(fn)
        # numbers known to be positions of the table
        R = set()
        for x in nodes(body):
            for key in ("pat",):
                pass
        def tyid_pattern_bindings(p):
            out = []
            if not isinstance(p, dict):
                return out
            if p.get("k") == "TupleStruct" and (norm_path(p.get("path")) or "").endswith("TyID"):
                out += [b["hid"] for b in pat_bindings(p)]
            for key in ("pats", "before", "after"):
                for q in p.get(key) or []:
                    out += tyid_pattern_bindings(q)
            for key in ("pat", "sub"):
                if isinstance(p.get(key), dict):
                    out += tyid_pattern_bindings(p[key])
            for f in p.get("fields") or []:
                if isinstance(f, dict):
                    out += tyid_pattern_bindings(f.get("pat"))
            return out
        for prm in fn["params"]:
            R.update(tyid_pattern_bindings(prm["pat"]))
        assigns = {}
        for x in nodes(body):
            k = x.get("k")
            if k in ("Let", "LetCond"):
                R.update(tyid_pattern_bindings(x["pat"]))
                if k == "Let" and x.get("init") is not None:
                    bs = pat_bindings(x["pat"])
                    if len(bs) == 1 and peel(x["pat"]).get("k") == "Binding":
                        assigns.setdefault(bs[0]["hid"], []).append(x["init"])
            elif k == "Match":
                for a in x["arms"]:
                    R.update(tyid_pattern_bindings(a["pat"]))
            elif k == "ForLoop":
                it = peel(x["iter"])
                if it.get("k") == "Struct" and "Range" in (it.get("path") or "") or it.get("k") == "Range":
                    hi = None
                    for f in it.get("fields", []):
                        if f["name"] == "end":
                            hi = peel(f["e"])
                    hi = hi or peel(it.get("hi") or {})
                    if isinstance(hi, dict) and hi.get("k") == "MethodCall" and hi["m"] == "len" and is_types_field(hi["recv"]):
                        R.update(b["hid"] for b in pat_bindings(x["pat"]))
            elif k == "Assign":
                l = peel(x["l"])
                if l.get("k") == "Path" and l.get("res") == "Local":
                    assigns.setdefault(l["hid"], []).append(x["r"])
            elif k == "MethodCall" and x["m"] in SHRINKING and is_types_field(x["recv"]):
                shrink.append((fn, x))
        def value_tails(e):
            e = peel(e)
            if not isinstance(e, dict):
                return []
            if e.get("k") == "If":
                return value_tails(e["t"]) + (value_tails(e["e"]) if e.get("e") is not None else [None])
            if e.get("k") == "Match":
                return [t for a_ in e["arms"] for t in value_tails(a_["body"])]
            if e.get("k") == "Block":
                return value_tails(e["e"]) if e.get("e") is not None else [None]
            return [e]
        tuple_lets = []
        for x in nodes(body, "Let"):
            p_ = peel(x["pat"])
            if p_.get("k") == "Tuple" and x.get("init") is not None and all(peel(q).get("k") == "Binding" for q in p_["pats"]):
                tuple_lets.append(([peel(q)["hid"] for q in p_["pats"]], x["init"]))
        changed = True
        while changed:
            changed = False
            for h, es in assigns.items():
                if h in R:
                    continue
                if all(peel(e).get("k") == "Path" and peel(e).get("hid") in R for e in es):
                    R.add(h)
                    changed = True
            for hs, init in tuple_lets:
                if all(h in R for h in hs):
                    continue
                ts = value_tails(init)
                if ts and all(isinstance(t, dict) and t.get("k") == "Tup" and len(t["es"]) == len(hs) and
                              all(peel(y).get("k") == "Path" and peel(y).get("hid") in R for y in t["es"]) for t in ts):
                    R.update(hs)
                    changed = True
        order = [id(x_) for x_ in nodes(body)]
        push_pos = [order.index(id(c)) for c in nodes(body, "MethodCall") if c["m"] == "push" and is_types_field(c["recv"])]
        k1 = k2 = 0
        for x, parents in walk(body):
            if x.get("k") == "Call" and (callee(x) or "").endswith("sylt_common::TyID") and x["args"] and not x.get("from_derive"):
                a = peel(x["args"][0])
                n_ctor += 1
                k1 += 1
                # the length read *before* the one push that fills that position
                mint = a.get("k") == "MethodCall" and a["m"] == "len" and is_types_field(a["recv"]) and len(push_pos) == 1 and \
                    order.index(id(a)) < push_pos[0]
                ok = mint or (a.get("k") == "Path" and a.get("hid") in R)
                rep.ob(rule, "%s|TyID(..)#%d" % (last(fn["_path"], 2), k1), ok,
                       ("TyID(%s): %s" % (pp(a), "the position the next push fills" if mint else "the number of an existing TyID / a position below types.len()"))
                       if ok else
                       "%s makes a TyID from `%s`, which is neither the length of the table right before a push nor a number taken out of "
                       "an existing TyID: `self.types[..]` with it can be out of range (index out of bounds panic)" % (last(fn["_path"], 2), pp(a)),
                       line_of(x))
            if x.get("k") == "Index" and is_types_field(x["e"]):
                i = peel(x["i"])
                n_idx += 1
                k2 += 1
                ok = i.get("k") == "Path" and i.get("hid") in R
                if ok:
                    contracts[id(x)] = "MINTED TyID"
                rep.ob(rule, "%s|types[..]#%d" % (last(fn["_path"], 2), k2), ok,
                       "types[%s]: the number of a TyID" % pp(i) if ok else
                       "%s indexes the type table with `%s`, which is not known to be the number of a TyID" % (last(fn["_path"], 2), pp(i)),
                       line_of(x))
    rep.ob(rule, "types|never-shrinks", not shrink,
           "the type table only grows (no truncate/pop/remove/clear/.. on TypeChecker.types)" if not shrink else
           "the type table is shrunk in %s: TyIDs made earlier may point past its end" % [last(f["_path"], 2) for f, _ in shrink],
           line_of(shrink[0][1]) if shrink else None)
    rep.floor(rule, "TyID constructions", n_ctor, 4)
    rep.floor(rule, "indices into the type table", n_idx, 10)


def token_callbacks_cannot_panic(F, rep, rule="CENSUS"):
    """The callbacks in the attributes of enum Token run inside the generated lexer, on whatever text the pattern matched - text the
    programmer controls.  A callback hands back a Result / Option / bool (logos makes a failed one the Error token); it does not unwrap:
    the digits of an Int pattern are not all an i64 (`99999999999999999999`)."""
    import toks
    tk = toks.TokenSpec(F)
    n = 0
    for name in tk.order:
        cb = tk.rules[name].get("callback")
        if not cb or tk.rules[name].get("skip") and cb.strip() == "logos::skip":
            continue
        n += 1
        bad = re.search(r"\b(unwrap|expect|unwrap_unchecked)\s*\(|\b(panic|unreachable|todo|unimplemented|assert|assert_eq)\s*!", cb)
        for m_ in re.finditer(r"\[([^\]]*)\]", cb):
            # a slice `[k..]` of the matched text: fine when every match starts with k ASCII characters the pattern spells out
            k_ = re.fullmatch(r"\s*(\d+)\s*\.\.\s*", m_.group(1))
            lead = 0
            for op_, av_ in (tk._parsed(name) or []):
                if str(op_) == "LITERAL" and av_ < 128:
                    lead += 1
                else:
                    break
            if not (k_ and int(k_.group(1)) <= lead):
                bad = bad or m_
        rep.ob(rule, "token-callback|%s|hands-failure-to-the-lexer" % name, bad is None,
               "the callback of Token::%s (`%s`) returns its failure to the lexer, which makes it an Error token" % (name, cb.strip()[:60]) if bad is None else
               "the callback of Token::%s contains `%s`: it runs on every text the pattern matches, and text the pattern matches but "
               "the callback cannot convert (an integer literal of 20 digits) panics inside the lexer instead of becoming an Error token "
               "and a syntax error" % (name, bad.group(0)))
    rep.floor(rule, "token patterns with a callback", n, 3)


def premises_of_reviewed_unwraps(F, rep, rule="CENSUS"):
    """`use <path>` without an alias names the import after the last segment of the path: `file_stem().unwrap()` of the path with its
    slashes trimmed.  The reason it cannot fail - "the lone `/` is rejected above" - is a guard in the same function: a comparison of
    the path with the literal "/" whose branch is an error, in front of the unwrap."""
    fn = F.fns.get("sylt_parser::statement::statement")
    if fn is None or fn.get("body") is None:
        rep.anchor_missing("sylt_parser::statement::statement (premise of the file_stem unwrap)")
        return
    body = fn_body(fn)
    order = [id(x) for x in nodes(body)]
    stems = [c for c in nodes(body, "MethodCall") if c["m"] == "file_stem"]
    guards = []
    for i_ in nodes(body, "If"):
        c = peel(i_["c"])
        lits = [x for x in nodes(c, "Lit") if x.get("v") == "/"]
        is_eq = c.get("k") == "Binary" and c.get("op") == "Eq" or (c.get("k") == "MethodCall" and c["m"] in ("eq",))
        if lits and is_eq and (tc_is_err(i_["t"])):
            guards.append(i_)
    ok = bool(stems) and all(any(order.index(id(g)) < order.index(id(st)) for g in guards) for st in stems)
    rep.ob(rule, "unwrap-premise|statement::statement|lone-slash-is-rejected-first", ok,
           "`use /` without an alias is a syntax error before the import is named after the last path segment (%d guard(s))" % len(guards) if ok else
           "statement() names an import without alias after `file_stem().unwrap()` of the trimmed path, but no comparison of the path with "
           "\"/\" that ends in an error stands in front of it: `use /` trims to the empty path, file_stem() is None and the parser panics "
           "(status 101, no diagnostic)", line_of(stems[0]) if stems else fn["sp"])


def tc_is_err(e):
    import tc as _tc
    if _tc.is_err_value(e):
        return True
    # raise_syntax_error!: `return (ctx, Err(..))`
    return any(r.get("k") == "Ret" for r in nodes(e)) and "Err" in pp(e)
