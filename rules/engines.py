"""Shared rule engines (DESIGN.md §3): VISIT, helpers for match arms over AST enums."""
import re

from hir import (
    diverges, is_err_exit, nodes, walk, norm_path, last, pat_alternatives, pat_variant, pat_fields, pat_bindings, pat_strip,
    pat_is_catchall, callee, call_args, fn_body, line_of, peel, pp,
)
from flow import Flow


def strip_ty(t):
    t = t.strip()
    while True:
        t0 = t
        t = re.sub(r"^&(?:'[a-z_]+ )?(?:mut )?", "", t).strip()
        for bx in ("std::boxed::Box<", "alloc::boxed::Box<"):
            if t.startswith(bx) and t.endswith(">"):
                t = t[len(bx):-1]
        if t == t0:
            break
    return norm_path(t)


def ty_is(tystr, adt_path):
    """type strings use rustc's display paths (crate-relative for local types, shortest visible path for
    re-exported foreign ones); ADT paths are canonical: equal if the display segments are a subsequence of
    the canonical ones ending in the same name (and starting in the same crate when qualified)"""
    # type strings are canonical (crate-qualified definition paths), like ADT paths
    return strip_ty(tystr) == adt_path


def ty_mentions(tystr, names):
    """does the type string mention one of the (possibly module-qualified) type names as a whole path
    suffix, e.g. 'name_resolution::Type' matches `Vec<name_resolution::Type>` but not `sylt_common::ty::Type`"""
    for n in names:
        if re.search(r"(?<![A-Za-z0-9_:])(?:[A-Za-z0-9_]+::)*?" + re.escape(n) + r"(?![A-Za-z0-9_])", tystr):
            # the match must start at a path boundary
            for m in re.finditer(r"[A-Za-z0-9_:]+", tystr):
                w = m.group(0)
                if w == n or w.endswith("::" + n):
                    return True
    return False


def matches_on(body, adt_path):
    for m in nodes(body, "Match"):
        if any(x == "matches" for x in m.get("mac", [])):
            continue  # matches!() is a predicate, not a fold step
        if ty_is(m["scrut_ty"], adt_path):
            yield m


def arm_alternatives(m):
    """yield (arm, alt_pattern, variant_path|None) for every alternative of every arm"""
    for arm in m["arms"]:
        for alt in pat_alternatives(arm["pat"]):
            yield arm, alt, pat_variant(alt)


def canonical_hids(arm_pat, sub_pat):
    """hids by which the bindings of sub_pat are referenced in the arm body: for or-patterns all
    alternatives' bindings resolve to the first binding of that name in the arm pattern"""
    first = {}
    for b in pat_bindings(arm_pat):
        first.setdefault(b["name"], b["hid"])
    return {first.get(b["name"], b["hid"]) for b in pat_bindings(sub_pat)} | {b["hid"] for b in pat_bindings(sub_pat)}


class Visit:
    """VISIT — traversal completeness of a fold (DESIGN §3.1).

    fold_fns : {normalised def path} of the functions forming the fold
    enums    : [adt path] the fold matches on
    is_child : (variant_path, field_name, field_ty) -> bool
    exempt   : {(VariantLastName, field): reason}
    struct_children : {adt path: [child field names]} for record children (IfBranch, CaseBranch)
    """

    def __init__(self, F, rep, rule, fold_fns, enums, is_child, exempt=None, struct_children=None,
                 wildcard_ok=None, is_leaf=None):
        self.F, self.rep, self.rule = F, rep, rule
        self.fold = set(fold_fns)
        self.enums = enums
        self.is_child = is_child
        self.exempt = exempt or {}
        self.struct_children = struct_children or {}
        self.wildcard_ok = wildcard_ok or {}
        self.is_leaf = is_leaf or (lambda v, f, t: False)
        self.strict = True
        self.arms_seen = 0
        self.children_checked = 0
        self.conditional = set()

    def is_fold_call(self, n):
        c = callee(n)
        return c in self.fold

    def _hidden_content(self, sub):
        """(pattern text, [field names]) when a binding-free sub-pattern names a variant of one of the folded enums that
        has child or leaf fields"""
        from hir import ppat
        for alt in pat_alternatives(sub):
            alt = pat_strip(alt)
            vp = pat_variant(alt)
            if not vp:
                continue
            for enum in self.enums:
                try:
                    adt = self.F.adt(enum)
                except Exception:
                    continue
                for v in adt["variants"]:
                    if norm_path(v["path"]) == vp:
                        inner = [f["name"] for f in v["fields"] if self.is_child(vp, f["name"], f["ty"]) or self.is_leaf(vp, f["name"], f["ty"])]
                        if inner:
                            return (ppat(alt)[:50], inner)
        return None

    def run_fn(self, fn):
        self.rep.analysed(fn)
        body = fn_body(fn)
        fl = Flow(fn, body)
        fname = last(fn["_path"], 2)
        fold_calls = [n for n in nodes(body) if n.get("k") in ("Call", "MethodCall") and self.is_fold_call(n)]
        for enum in self.enums:
            adt = self.F.adt(enum)
            vfields = {norm_path(v["path"]): v for v in adt["variants"]}
            param_hids = {b["hid"] for prm in fn["params"] for b in pat_bindings(prm["pat"])}
            for m in matches_on(body, enum):
                scrut_hids = {x["hid"] for x in nodes(m["scrut"], "Path") if x.get("res") == "Local"}
                if not (scrut_hids & param_hids):
                    continue  # not the fold's own dispatch (a nested inspection of some child)
                for arm, alt, vpath in arm_alternatives(m):
                    if diverges(arm["body"]):
                        continue  # unreachable!/panic! arms are phase contracts (checked by C07)
                    if vpath is None:
                        if pat_is_catchall(alt):
                            key = "%s|%s|_" % (fname, last(enum))
                            reason = self.wildcard_ok.get((fname, last(enum)))
                            self.rep.ob(self.rule + "-wildcard", key, reason is not None,
                                        "wildcard arm over %s in %s %s" % (last(enum), fname,
                                                                           "(justified: %s)" % reason if reason else
                                                                           "silently exempts variants from the fold"),
                                        line_of(arm))
                        continue
                    if vpath not in vfields:
                        continue
                    self.arms_seen += 1
                    v = vfields[vpath]
                    vname = v["name"]
                    bound = pat_fields(alt)
                    # whole node forwarded to another fold function?
                    forwarded = False
                    arm_calls = [c for c in fold_calls if _inside(arm, c)]
                    for c in arm_calls:
                        if any(Flow.mentions(a, scrut_hids) for a in call_args(c)):
                            forwarded = True
                    for i, fld in enumerate(v["fields"]):
                        fname_ = fld["name"]
                        if not self.is_child(vpath, fname_, fld["ty"]):
                            continue
                        self.children_checked += 1
                        key = "%s|%s.%s" % (fname, vname, fname_)
                        ex = self.exempt.get((vname, fname_)) or self.exempt.get((fname, vname, fname_))
                        if ex:
                            self.rep.ob(self.rule, key, True, "exempt: " + ex, line_of(arm))
                            continue
                        if forwarded:
                            self.rep.ob(self.rule, key, True, "whole %s node is passed on to a fold function" % vname,
                                        line_of(arm))
                            continue
                        sub = bound.get(fname_)
                        if sub is None:
                            self.rep.ob(self.rule, key, False,
                                        "child `%s` of %s is not bound by the arm pattern in %s (hidden behind `..`): "
                                        "it is never visited" % (fname_, vname, fname), line_of(arm))
                            continue
                        subs = pat_strip(sub)
                        if subs.get("k") == "Wild":
                            self.rep.ob(self.rule, key, False,
                                        "child `%s` of %s is ignored (`_`) in %s" % (fname_, vname, fname), line_of(arm))
                            continue
                        hids = canonical_hids(arm["pat"], sub)
                        if not hids:
                            # a sub-pattern without bindings: fine for a constant such as `None`, but a nested variant pattern
                            # that hides fields (`target: Expression::Read { .. }`) drops whatever the hidden fields hold
                            hidden = self._hidden_content(sub)
                            self.rep.ob(self.rule, key, not hidden,
                                        "matched against a constant pattern (no content)" if not hidden else
                                        "child `%s` of %s is matched against the nested pattern `%s`, which binds nothing: the "
                                        "%s inside that node %s never visited in this arm of %s" % (
                                            fname_, vname, hidden[0], ", ".join(hidden[1]), "is" if len(hidden[1]) == 1 else "are", fname),
                                        line_of(arm))
                            continue
                        derived = fl.derived(hids)
                        ok = False
                        if self.is_leaf(vpath, fname_, fld["ty"]):
                            # a leaf (variable reference): it must be used in the arm's result
                            ok = Flow.mentions(arm["body"], derived)
                            self.rep.ob(self.rule, key, ok,
                                        ("reference `%s` of %s is used by the arm in %s" if ok else
                                         "reference `%s` of %s is bound but unused in %s") % (fname_, vname, fname),
                                        line_of(arm))
                            continue
                        for c in arm_calls:
                            if any(Flow.mentions(a, derived) for a in call_args(c)):
                                ok = True
                                break
                        if ok and self.strict:
                            ok2 = must_visit(arm["body"], derived, self.is_fold_call)
                            if not ok2:
                                self.rep.ob(self.rule, key, False,
                                            "child `%s` of %s reaches the fold in %s only on some paths (the visit is conditional on "
                                            "something other than the child itself)" % (fname_, vname, fname), line_of(arm))
                                continue
                        if ok and self.strict:
                            dropped = self._partly_dropped(arm, derived, vfields_all=set(hids))
                            if dropped:
                                self.rep.ob(self.rule, key, False,
                                            "child `%s` of %s is taken apart in %s by a nested case split (`%s`) that ignores its `%s`: that "
                                            "part of the child never reaches the fold (a qualifier `ns.` in front of a name is dropped and the "
                                            "bare name looked up instead)" % (fname_, vname, fname, dropped[0], dropped[1]), line_of(arm))
                                continue
                        self.rep.ob(self.rule, key, ok,
                                    ("child `%s` of %s reaches the fold in %s" if ok else
                                     "child `%s` of %s is bound but never passed to a fold function in %s")
                                    % (fname_, vname, fname), line_of(arm))
        # record children (IfBranch / CaseBranch): every child field must reach the fold somewhere in fn
        for sp, fields in self.struct_children.items():
            uses = self._struct_field_uses(body, fl, fold_calls, sp)
            if uses is None:
                continue
            for f in fields:
                key = "%s|%s.%s" % (fname, last(sp), f)
                ex = self.exempt.get((last(sp), f))
                if ex:
                    self.rep.ob(self.rule, key, True, "exempt: " + ex)
                    continue
                ok = f in uses
                cond = (last(sp), f) in self.conditional
                self.rep.ob(self.rule, key, ok,
                            ("field `%s` of %s reaches the fold in %s" if ok else
                             "field `%s` of %s reaches a fold function in %s only on some paths (conditional on something other than the "
                             "field itself, e.g. on a sibling being present)" if cond else
                             "field `%s` of %s never reaches a fold function in %s") % (f, last(sp), fname),
                            fn["sp"])

    def _partly_dropped(self, arm, derived, vfields_all=None):
        """(pattern text, field) when the arm inspects the child itself with a nested match over one of the folded enums and an
        alternative of that match ignores (`_` / `..`) a child field of the variant it names - unless the whole child is also
        handed to a fold function"""
        from hir import ppat
        body = arm["body"]
        # the whole child handed to a fold function somewhere: nothing is lost
        whole = vfields_all or set()
        for c in nodes(body):
            if c.get("k") in ("Call", "MethodCall") and self.is_fold_call(c):
                for a in call_args(c):
                    a0 = peel(a)
                    while isinstance(a0, dict) and a0.get("k") == "Unary":
                        a0 = peel(a0["e"])
                    if isinstance(a0, dict) and a0.get("k") == "Path" and a0.get("hid") in whole:
                        return None
        for m in nodes(body, "Match"):
            if "matches" in (m.get("mac") or []):
                continue
            if not any(ty_is((m.get("scrut_ty") or "").lstrip("&"), e) for e in self.enums):
                continue
            if not Flow.mentions(m["scrut"], derived):
                continue
            for a2 in m["arms"]:
                if diverges(a2["body"]) or is_err_exit(a2["body"]):
                    continue
                for alt in pat_alternatives(a2["pat"]):
                    altp = pat_strip(alt)
                    vp = pat_variant(altp)
                    if not vp:
                        continue
                    for enum in self.enums:
                        try:
                            adt = self.F.adt(enum)
                        except Exception:
                            continue
                        for v in adt["variants"]:
                            if norm_path(v["path"]) != vp:
                                continue
                            bound = pat_fields(altp)
                            for fld in v["fields"]:
                                if not self.is_child(vp, fld["name"], fld["ty"]) or self.is_leaf(vp, fld["name"], fld["ty"]):
                                    continue
                                sub = bound.get(fld["name"])
                                if sub is None or pat_strip(sub).get("k") == "Wild":
                                    return (ppat(altp)[:60], fld["name"])
        return None

    def _struct_field_uses(self, body, fl, fold_calls, sp):
        """set of fields of record type sp that reach a fold call in this fn; None if the fn never
        handles values of that type"""
        seen = False
        out = set()
        # destructuring patterns anywhere (closure params, for patterns, let, match arms)
        for hid, o in fl.origin.items():
            for el in o["path"]:
                if el[0] == "field" and el[1] == sp:
                    seen = True
                    derived = fl.derived({hid})
                    if any(Flow.mentions(a, derived) for c in fold_calls for a in call_args(c)):
                        scope = None
                        if o["kind"] == "closure":
                            scope = o["node"]["body"]
                        elif o["kind"] == "for":
                            scope = o["node"]["body"]
                        elif o["kind"] == "arm":
                            scope = o["arm"]["body"]
                        if scope is None or not self.strict or must_visit(scope, derived, self.is_fold_call):
                            out.add(el[2])
                        else:
                            self.conditional.add((last(sp), el[2]))
        # field projections  x.f  with x: sp
        for n, parents in walk(body):
            if n.get("k") == "Field" and ty_is(n.get("base_ty", ""), sp):
                seen = True
                # directly inside a fold call argument?
                if any(p.get("k") in ("Call", "MethodCall") and self.is_fold_call(p) for p in parents):
                    out.add(n["name"])
                    continue
                # or feeding a binding that reaches a fold call
                for hid, o in fl.origin.items():
                    src = o.get("src")
                    if src is not None and any(x is n for x in nodes(src)):
                        derived = fl.derived({hid})
                        if any(Flow.mentions(a, derived) for c in fold_calls for a in call_args(c)):
                            out.add(n["name"])
        return out if seen else None


DROPPING_ADAPTORS = {"filter", "skip", "take", "step_by", "skip_while", "take_while", "nth", "last", "first", "find", "next",
                     "next_back", "peekable_next", "min", "max", "min_by_key", "max_by_key", "get", "split_first", "split_last"}


def _drops_elements(recv):
    """does the iterator chain in front of an adaptor drop elements of the collection (filter / skip / take ..)?"""
    r = peel(recv)
    while isinstance(r, dict) and r.get("k") in ("MethodCall", "Index", "Block"):
        if r["k"] == "Block":
            # the value of a block (an inlined helper) is its tail expression
            r = peel(r.get("e") or {})
            continue
        if r["k"] == "Index":
            # a sub-slice `xs[..n]` / `xs[a..]` / `xs[a..b]`: the elements outside the range are let go
            if _is_range(r.get("i")):
                return True
            r = peel(r.get("e") or {})
            continue
        if r["m"] in DROPPING_ADAPTORS:
            return True
        if r["m"] == "filter_map":
            # total when the closure answers Some on every path - not examined: treat as dropping
            return True
        r = peel(r["recv"])
    return False


def _is_range(e):
    e = peel(e) if isinstance(e, dict) else None
    if not isinstance(e, dict):
        return False
    t = (e.get("ty") or "") + " " + pp(e)
    return "range::Range" in t or "ops::Range" in t or (e.get("k") == "Binary" and "Range" in str(e.get("op")))


def must_visit(n, derived, is_fold_call, depth=0):
    """does evaluating n necessarily hand (something derived from) the child to a fold function?
    if/match count only when every non-diverging branch does; a closure counts when it is passed to an adaptor over a
    collection / iterator (it runs for every element) or over an Option that itself derives from the child; a closure
    over an Option of *another* value makes the visit conditional on that other value"""
    if n is None or not isinstance(n, dict) or depth > 60:
        return False
    k = n.get("k")
    if k in ("Call", "MethodCall") and is_fold_call(n) and any(Flow.mentions(a, derived) for a in call_args(n)):
        return True
    if k == "If":
        if must_visit(n["c"], derived, is_fold_call, depth + 1):
            return True
        c = peel(n["c"])
        if c.get("k") == "LetCond" and Flow.mentions(c["init"], derived) and not _mentions_other(c["init"], derived):
            # `if let Some(x) = <this child>`: visiting inside is the visit of the (optional) child itself
            return must_visit(n["t"], derived, is_fold_call, depth + 1)
        if is_err_exit(n["t"]):
            return n.get("e") is not None and must_visit(n["e"], derived, is_fold_call, depth + 1)
        if n.get("e") is not None and is_err_exit(n["e"]):
            return must_visit(n["t"], derived, is_fold_call, depth + 1)
        return n.get("e") is not None and must_visit(n["t"], derived, is_fold_call, depth + 1) and \
            must_visit(n["e"], derived, is_fold_call, depth + 1)
    if k == "Match":
        if must_visit(n["scrut"], derived, is_fold_call, depth + 1):
            return True
        arms = [a for a in n["arms"] if not diverges(a["body"]) and not is_err_exit(a["body"])]
        if Flow.mentions(n["scrut"], derived) and not _mentions_other(n["scrut"], derived):
            # a case split on the child itself (Some/None, Ok/Err of the child's own result): any arm suffices
            return any(must_visit(a["body"], derived, is_fold_call, depth + 1) for a in arms)
        return bool(arms) and all(must_visit(a["body"], derived, is_fold_call, depth + 1) for a in arms)
    if k == "MethodCall":
        if must_visit(n["recv"], derived, is_fold_call, depth + 1):
            return True
        clos = [a for a in n["args"] if a.get("k") == "Closure"]
        rt = strip_ty(n.get("recv_ty", ""))
        for a in n["args"]:
            if a.get("k") == "Closure":
                if rt.startswith("core::option::Option<") or rt.startswith("core::result::Result<"):
                    # Option::map(|x| ..): runs only if the receiver is Some
                    if Flow.mentions(n["recv"], derived) and must_visit(a["body"], derived, is_fold_call, depth + 1):
                        return True
                elif must_visit(a["body"], derived, is_fold_call, depth + 1):
                    # .. for every element only if nothing in front of this adaptor lets elements go
                    if _drops_elements(n["recv"]):
                        return False
                    return True
            elif must_visit(a, derived, is_fold_call, depth + 1):
                return True
        return False
    if k == "Closure":
        return False
    if k == "Block":
        # statements in order: a `?` on an Option (a silent early exit: the closure / function just yields None) or a plain
        # return / continue / break that is evaluated before the visit makes the visit conditional - unless what is tested is
        # the child itself.  (`?` on a Result is error propagation: the program is rejected.)
        from flow import uncond_nodes
        for st in list(n.get("stmts") or []) + ([n["e"]] if isinstance(n.get("e"), dict) else []):
            if must_visit(st, derived, is_fold_call, depth + 1):
                return True
            for x in uncond_nodes(st):
                if x.get("k") == "Try":
                    ity = strip_ty((peel(x["e"]) or {}).get("ty", "") or "")
                    if ity.startswith("core::option::Option<") and not (Flow.mentions(x["e"], derived) and not _mentions_other(x["e"], derived)):
                        return False
                elif x.get("k") in ("Ret", "Continue", "Break") and not is_err_exit(x):
                    return False
            # .. also a *conditional* way out that is not an error (`if other.is_empty() { return Ok(..) }`): on that path the
            # child is never visited - unless the condition is about the child itself
            for x, par in walk(st):
                if x.get("k") != "Ret" or is_err_exit(x) or any(p_.get("k") == "Closure" for p_ in par):
                    continue
                conds = [p_["c"] for p_ in par if p_.get("k") == "If"]
                if conds and all(Flow.mentions(c_, derived) and not _mentions_other(c_, derived) for c_ in conds):
                    continue
                if conds:
                    return False
        return False
    if k == "ForLoop":
        return must_visit(n["iter"], derived, is_fold_call, depth + 1) or must_visit(n["body"], derived, is_fold_call, depth + 1)
    if k in ("While", "Loop"):
        return False
    if k == "Binary" and n.get("op") in ("And", "Or"):
        return must_visit(n["l"], derived, is_fold_call, depth + 1)
    if k is None and "pat" in n and "body" in n:
        return False
    from hir import children
    for c in children(n):
        if isinstance(c, dict) and must_visit(c, derived, is_fold_call, depth + 1):
            return True
    return False


def _mentions_other(e, derived):
    for x in nodes(e, "Path"):
        if x.get("res") == "Local" and x["hid"] not in derived and x.get("name") not in ("self",):
            return True
    return False


def _inside(arm, node):
    for x in nodes(arm.get("body")):
        if x is node:
            return True
    if arm.get("guard"):
        for x in nodes(arm["guard"]):
            if x is node:
                return True
    return False


# ------------------------------------------------------------------ order of child lists

REORDER_METHODS = {"sort", "sort_by", "sort_by_key", "sort_unstable", "sort_unstable_by", "sort_unstable_by_key",
                   "sort_by_cached_key", "dedup", "dedup_by", "dedup_by_key", "reverse", "rev", "swap", "swap_remove",
                   "rotate_left", "rotate_right", "select_nth_unstable", "sorted", "into_sorted_vec"}
UNORDERED_TYPES = ("alloc::collections::btree::", "std::collections::hash::", "alloc::collections::binary_heap::",
                   "hashbrown::")


def order_preserved(F, rep, rule, prefixes, node_prefixes, floor):
    """The tree a pass hands on lists its children in the order the source wrote them: evaluation order (arguments,
    elements, blob fields, statements), parameter positions and type-variable positions are all *positions in a Vec*.
    For every node the functions under `prefixes` construct (types under `node_prefixes`), the backward slice of each
    Vec-valued field - the expression, the initialisers of the locals it names, and the statements that mutate those
    locals - passes through no sorted or hashed collection and no reordering operation."""
    from hir import nodes, fn_body, peel, line_of, last, callee, pat_bindings
    n = 0
    for fn in [f for pre in prefixes for f in F.fns_in(pre)]:
        body = fn_body(fn)
        lets = {}
        for st in nodes(body, "Let"):
            if st.get("init") is not None:
                for b in pat_bindings(st["pat"]):
                    lets.setdefault(b["hid"], []).append(st["init"])
        mut = {}
        for c in nodes(body, "MethodCall"):
            r = peel(c["recv"])
            if isinstance(r, dict) and r.get("k") == "Path" and r.get("res") == "Local":
                mut.setdefault(r["hid"], []).append(c)
        seq = {}
        for node in nodes(body):
            k = node.get("k")
            if k == "Struct":
                path = node.get("path") or ""
                fields = [(f["name"], f["e"]) for f in node["fields"]]
            elif k == "Call":
                path = callee(node) or ""
                fields = [(str(i), a) for i, a in enumerate(node["args"])]
            else:
                continue
            if not path.startswith(tuple(node_prefixes)) or not (node.get("ty") or "").startswith(tuple(node_prefixes)):
                continue
            for fname, e in fields:
                if not (isinstance(e, dict) and (e.get("ty") or "").lstrip("&").strip().startswith("alloc::vec::Vec<")):
                    continue
                n += 1
                bad = _order_slice(e, lets, mut)
                ctor = last(path, 2)
                seq[(ctor, fname)] = seq.get((ctor, fname), 0) + 1
                key = "%s|%s.%s#%d" % (last(fn["_path"], 2), ctor, fname, seq[(ctor, fname)])
                rep.ob(rule, key, not bad,
                       ("`%s` of %s keeps the order its elements were written in" % (fname, ctor)) if not bad else
                       ("`%s` of %s built in %s passes through %s: its elements no longer stand in the order the source wrote "
                        "them (evaluation order of the children / the position a parameter or type variable is bound by)"
                        % (fname, ctor, last(fn["_path"], 2), "; ".join(sorted(set(bad))))), line_of(node))
    rep.floor(rule, "list-valued fields of constructed nodes", n, floor)


def _order_slice(e, lets, mut):
    from hir import nodes, peel, line_of
    bad = []
    seen = set()
    seen_nodes = set()
    work = [e]
    while work:
        x = work.pop()
        if id(x) in seen_nodes:
            continue
        seen_nodes.add(id(x))
        for nd in nodes(x):
            t = (nd.get("ty") or "").lstrip("&").replace("mut ", "").strip()
            if nd.get("k") in ("Path", "MethodCall", "Call") and t.startswith(UNORDERED_TYPES):
                bad.append("a %s (line %s)" % (t.split("<")[0].split("::")[-1], line_of(nd).split(":")[-2] if line_of(nd) else "?"))
            if nd.get("k") == "MethodCall" and nd["m"] in REORDER_METHODS:
                bad.append("`.%s()` (line %s)" % (nd["m"], line_of(nd).split(":")[-2] if line_of(nd) else "?"))
            if nd.get("k") == "Path" and nd.get("res") == "Local" and nd["hid"] not in seen:
                seen.add(nd["hid"])
                work.extend(lets.get(nd["hid"], ()))
                for c in mut.get(nd["hid"], ()):
                    if c["m"] in REORDER_METHODS:
                        bad.append("`%s.%s()` (line %s)" % (nd.get("name"), c["m"], line_of(c).split(":")[-2] if line_of(c) else "?"))
                    elif c["m"] in ("push", "extend", "insert", "append", "extend_from_slice"):
                        work.extend(c["args"])
    return bad
