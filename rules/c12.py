"""C12 — modules: imports resolve as documented and files are isolated (DESIGN §4 C12)."""
from hir import (nodes, walk, fn_body, callee, call_args, last, line_of, peel, peel_clone, pp, norm_path, pat_alternatives,
                 pat_variant, pat_bindings, find_formats, format_text)
from engines import matches_on, arm_alternatives, ty_is
from flow import Flow, uncond_nodes
import tc

P = "sylt_parser::"
NR = "sylt_compiler::name_resolution::"
R = NR + "Resolver::"

EXPLANATION = (
    "Decides: (VISIT-ONCE) in tree() every read/parse of a file is preceded, in the same loop iteration, by the "
    "`visited.contains` test (continue when seen) and by `visited.insert`, so cyclic and diamond imports terminate and each "
    "file is loaded once; every file named by a use/from statement is queued; (ISOLATION) Resolver.namespaces is written "
    "only by insert_namespace_and_add_definitions (a file's own declarations) and resolve_global_variables (the names / "
    "aliases written in that file's use/from statements); lookups read the table of the file the identifier is written in "
    "(span.file_id) or a namespace reached through an explicit qualifier; no function scans all namespaces; (IMPORT-NAME) "
    "the key under which an import is visible is the alias if given, else the imported name / the file stem; (PATH-FORMS) "
    "use_path maps a library name to the library, a leading `/` to the root directory, `/` alone to exports.sy, a trailing "
    "`/` to <name>/exports.sy and anything else to <name>.sy next to the importing file, as the guide documents; "
    "(COLLISION) importing a different thing under an occupied name is an error."
    ' (COLLISION compares-entries) whether an occupied name is a collision is decided by comparing the existing entry with the one being inserted.'
    " (IMPORT-PASS) `from m use x` does not depend on the order in which modules are processed (known finding); (START) the entry point is the main file's own `start`."
    " (ISOLATION table-taken-out) no module's table is out of Resolver.namespaces while tables are read (a file may import from itself); (PATH-FORMS root) the source root is the main file's parent(), the operation relative imports apply, so rooted and relative imports spell one PathBuf; (PATH-FORMS path) the segments of a path are joined by `/` - two names are not one name."
    ' (ISOLATION ty_assignable) a qualified type `ns.Type` is looked up in the table of `ns` only; (INFERENCE - shared) splitting moves globals behind others in checking order, which must not matter.'
    ' (VISIT-resolve, shared with C09) every part of a qualified form is resolved - the qualifier is handed on, not dropped.'
    ' (FILE-ID) module ids are unique; (VISIT-ALL, shared) every global of every loaded file is ordered, checked and initialised.'
)
UNDECIDED = ("behavioural equivalence of a program and its partitions; re-exports resolve only if the exporting module was processed "
             "earlier (single pass in visit order) - reported as information.")

MANIFEST = dict(
    text=EXPLANATION + " Not decided: " + UNDECIDED,
    technique="ordering (dominance) rule in the module loader, who-may-write/read rule on the namespace table, decision-table extraction of the path forms",
)


def _split_keeps_initialisation_order(F, rep):
    """splitting a program over files must not change when its globals are initialised: every mention is a dependency edge"""
    import c11
    c11.dependency_visit(F, rep)


def run(F, rep, tier):
    rep.explanation = EXPLANATION
    rep.undecided = UNDECIDED
    visit_once(F, rep)
    isolation(F, rep)
    import_names(F, rep)
    path_forms(F, rep)
    import c05
    c05.start_rules(F, rep)
    import_pass(F, rep)
    chained_namespace(F, rep)
    found_member_is_the_answer(F, rep)
    _split_keeps_initialisation_order(F, rep)
    file_ids_unique(F, rep)
    # every global of every loaded file is ordered, checked and initialised - the walk over the globals starts from all of them,
    # not only from those of the main file (shared with C11)
    import c07
    c07.visit_loops_complete(F, rep)
    # splitting moves globals to another file, which the checker reaches later: nothing may be decided about a type only
    # because it is not known *yet* (shared with C08 and C11)
    import core
    import c08
    core.borrow(rep, c08.unknown_is_deferred, lambda o: o["rule"] == "INFERENCE" and "=>error" in o["key"], F)
    # every part of a qualified form (`ns.name`, `ns.Enum.Variant`, `ns.Type`) is resolved: the resolver's fold hands the qualifier
    # on, it does not take the last name and drop what stands in front (shared with C09)
    import c09
    core.borrow(rep, c09.visit_resolver, lambda o: o["rule"] == "VISIT-resolve" and
                any(t in o["key"] for t in ("|Access.", "|Variant.", "ty_assignable|")), F)


def _tree_roles(fn):
    """work list (the local that is popped), visited set (the hash/btree set that is tested and filled), reader (the
    function-typed parameter that loads a file)"""
    from hir import local_bindings
    binds = local_bindings(fn)
    roles = {}
    for c in nodes(fn_body(fn), "MethodCall"):
        r = peel(c["recv"])
        if r.get("k") != "Path" or r.get("res") != "Local":
            continue
        ty = (binds.get(r["hid"], {}).get("ty") or r.get("ty") or "")
        if c["m"] == "pop" and "Vec<" in ty:
            roles.setdefault("to_visit", r["hid"])
        if c["m"] in ("contains", "insert") and ("HashSet<" in ty or "BTreeSet<" in ty):
            roles.setdefault("visited", r["hid"])
    for prm in fn.get("params", []):
        for b in pat_bindings(prm["pat"]):
            if b["name"] != "self" and any(c.get("k") == "Call" and peel(c["f"]).get("hid") == b["hid"] for c in nodes(fn_body(fn))):
                roles.setdefault("reader", b["hid"])
    return roles


def visit_once(F, rep):
    from hir import with_roles
    fn0 = F.fn(P + "tree")
    rep.analysed(fn0)
    roles = _tree_roles(fn0)
    if set(roles) != {"to_visit", "visited", "reader"}:
        rep.anchor_missing("work list / visited set / reader of tree() (found: %s)" % sorted(roles))
        return
    fn = with_roles(fn0, roles)
    body = fn_body(fn)
    loop = None
    for n in nodes(body, "Loop"):
        if "to_visit.pop()" in pp(n)[:400]:
            loop = n
    for n in nodes(body, "While"):
        if "to_visit.pop()" in pp(n["cond"]):
            loop = n
    if loop is None:
        # `while let Some(x) = to_visit.pop()` desugars to loop { match .. }
        for n in nodes(body, "Match"):
            if "to_visit.pop()" in pp(n["scrut"]):
                loop = n
    if loop is None:
        rep.anchor_missing("the work-list loop of tree()")
        return
    # statements of the loop body in order
    blk = None
    for b in nodes(loop, "Block"):
        if any("visited.contains" in pp(s.get("e") or s.get("init") or {}) for s in b["stmts"]):
            blk = b
            break
    if blk is None:
        rep.ob("VISIT-ONCE", "tree|guard-present", False, "no `visited.contains` test in the loader's loop", fn["sp"])
        return
    idx = {}
    for i, s in enumerate(blk["stmts"] + ([dict(k="ExprStmt", e=blk["e"])] if blk.get("e") else [])):
        e = s.get("e") or s.get("init")
        if e is None:
            continue
        t = pp(e)
        e0 = peel(e)
        if "contains" not in idx and e0.get("k") == "If" and "visited.contains" in pp(e0["c"]):
            conts = [x for x in nodes(e0["t"]) if x.get("k") == "Continue"]
            idx["contains"] = i
            idx["contains_continue"] = bool(conts)
        if "insert" not in idx and any(c["m"] == "insert" and "visited" in pp(c["recv"]) for c in nodes(e, "MethodCall")):
            idx["insert"] = i
        if "reader" not in idx and any(c.get("k") == "Call" and peel(c["f"]).get("name") == "reader" for c in nodes(e)):
            idx["reader"] = i
        if "module" not in idx and any(callee(c) == P + "module" for c in nodes(e, "Call")):
            idx["module"] = i
        if "append" not in idx and any(c["m"] in ("append", "extend", "push") and "to_visit" in pp(c["recv"]) for c in nodes(e, "MethodCall")):
            idx["append"] = i
    order_ok = all(k in idx for k in ("contains", "insert", "reader", "module")) and idx["contains"] < idx["insert"] < idx["reader"] < idx["module"]
    rep.ob("VISIT-ONCE", "tree|order", order_ok and idx.get("contains_continue"),
           "loop body order: visited.contains -> continue; visited.insert; reader(file); module(..) (statement indices %s)" % idx, fn["sp"])
    rep.ob("VISIT-ONCE", "tree|imports-queued", "append" in idx and idx.get("append", -1) > idx.get("module", 99) - 1,
           "the files named by the module's use/from statements are queued for loading", fn["sp"])
    # ... whether or not the module itself parsed: a file reachable only through a broken file still has to be read, or its
    # errors (and a `File not found`) are never printed
    from flow import uncond_nodes
    apps = [c for c in nodes(blk, "MethodCall") if c["m"] in ("append", "extend", "push") and "to_visit" in pp(c["recv"])]
    unconditional = bool(apps) and any(any(x is a for x in uncond_nodes(blk)) for a in apps)
    rep.ob("VISIT-ONCE", "tree|imports-queued-unconditionally", unconditional,
           "the imports of a module are queued whatever the result of parsing it" if unconditional else
           "the imports of a module are only queued on one outcome of parsing it (inside a match arm / if): the files a broken "
           "module uses are never read, so their syntax errors and missing files are not reported", fn["sp"])
    # the same key is tested and inserted
    ins = [c for c in nodes(blk, "MethodCall") if c["m"] == "insert" and "visited" in pp(c["recv"])]
    con = [c for c in nodes(blk, "MethodCall") if c["m"] == "contains" and "visited" in pp(c["recv"])]
    same = bool(ins) and bool(con) and pp(peel_clone(ins[0]["args"][0])) == pp(peel_clone(con[0]["args"][0]))
    rep.ob("VISIT-ONCE", "tree|same-key", same, "the key tested and the key recorded are the same file (%s)" % (pp(con[0]["args"][0]) if con else None), fn["sp"])
    # module(): use_files collected from Use | FromUse
    mo = F.fn(P + "module")
    got = set()
    # the collection of imported files: the Vec<FileOrLib> local that module() returns as the first half of its result
    from hir import local_bindings
    mb = local_bindings(mo)
    files_h = {h for h, b in mb.items() if "Vec<sylt_common::FileOrLib>" in (b.get("ty") or "").replace("alloc::vec::", "")}
    for m in matches_on(fn_body(mo), P + "statement::StatementKind"):
        for arm, alt, vp in arm_alternatives(m):
            if vp and any(c["m"] == "push" and peel(c["recv"]).get("hid") in files_h for c in nodes(arm["body"], "MethodCall")):
                got.add(last(vp))
    rep.ob("VISIT-ONCE", "module|collects-imports", got == {"Use", "FromUse"}, "module() reports the files of both `use` and `from .. use` statements (%s)" % sorted(got), mo["sp"])


def _ns_field(e):
    e = peel(e)
    return isinstance(e, dict) and e.get("k") == "Field" and e["name"] == "namespaces" and "Resolver" in e.get("base_ty", "")


def isolation(F, rep):
    writers, scanners, readers = {}, [], {}
    for fn in F.fns_in(NR):
        for c in nodes(fn_body(fn), "MethodCall"):
            if _ns_field(c["recv"]):
                fname = last(fn["_path"])
                if c["m"] in ("insert", "get_mut", "entry", "remove", "clear", "extend", "retain"):
                    writers.setdefault(fname, []).append((c["m"], pp(peel_clone(c["args"][0])) if c["args"] else ""))
                elif c["m"] in ("iter", "values", "keys", "iter_mut", "values_mut", "into_iter", "drain"):
                    scanners.append((fname, c["m"]))
                else:
                    readers.setdefault(fname, []).append((c["m"], pp(peel_clone(c["args"][0])) if c["args"] else ""))
        for ix in nodes(fn_body(fn), "Index"):
            if _ns_field(ix["e"]):
                readers.setdefault(last(fn["_path"]), []).append(("[]", pp(peel_clone(ix["i"]))))
        for lp in nodes(fn_body(fn), "ForLoop"):
            if _ns_field(lp["iter"]):
                scanners.append((last(fn["_path"]), "for"))
    rep.ob("ISOLATION", "writers", set(writers) == {"insert_namespace_and_add_definitions", "resolve_global_variables"},
           "Resolver.namespaces is written by %s only" % sorted(writers))
    w1 = writers.get("insert_namespace_and_add_definitions", [])
    rep.ob("ISOLATION", "insert_namespace|own-file", w1 == [("insert", "file_or_lib")],
           "insert_namespace_and_add_definitions installs the table of the file it was called for (%s)" % w1)
    w2 = writers.get("resolve_global_variables", [])
    rep.ob("ISOLATION", "resolve_global_variables|own-file", bool(w2) and all(a == "file_or_lib" for _, a in w2),
           "resolve_global_variables only modifies the table of the importing file (%s)" % w2)
    # every module's table stays reachable for as long as anything is resolved: a table that is taken out (remove / take /
    # clear) is unreachable for the reads made until it is put back - `from geometry use scale` written in geometry.sy
    # itself (a one-file cycle) reads the importing file's own table
    for fn in F.fns_in(NR):
        order = []
        for x in nodes(fn_body(fn)):
            if x.get("k") == "MethodCall" and _ns_field(x["recv"]):
                order.append((x["m"], x))
            elif x.get("k") == "Index" and _ns_field(x["e"]):
                order.append(("[]", x))
            elif x.get("k") == "MethodCall" and (callee(x) or "").startswith(R) and not _ns_field(x["recv"]):
                order.append(("call", x))
            elif x.get("k") == "Call" and (callee(x) or "").startswith("core::mem::") and any(_ns_field(a) for a in x["args"]):
                order.append(("remove", x))
        k = 0
        for i, (m, x) in enumerate(order):
            if m not in ("remove", "clear", "retain", "drain", "remove_entry"):
                continue
            k += 1
            between = []
            restored = False
            for m2, y in order[i + 1:]:
                if m2 == "insert":
                    restored = True
                    break
                between.append((m2, line_of(y)))
            ok = restored and not between
            rep.ob("ISOLATION", "%s|table-taken-out#%d" % (last(fn["_path"]), k), ok,
                   "a module's table is taken out of Resolver.namespaces and put back before anything reads the tables" if ok else
                   "%s takes a module's table out of Resolver.namespaces (`%s`) and %s: a module that imports from itself "
                   "(`from geometry use scale as factor` inside geometry.sy) no longer finds its own table - `No namespace named ..`"
                   % (last(fn["_path"]), m, ("reads the tables before it is put back (%s)" % between[:3]) if restored else "never puts it back"),
                   line_of(x))
    rep.ob("ISOLATION", "no-scan", not scanners, "no function iterates over all namespaces to find a name (%s)" % scanners)
    r = readers.get("resolve_global_variables", [])
    rep.ob("ISOLATION", "imports-read-named-file", all(a in ("file",) for m, a in r if m in ("get", "contains_key")) and bool(r),
           "imports read only the namespace of the file named in the use/from statement (%s)" % r)
    for f_ in ("lookup_global", "find_similar_name"):
        rr = readers.get(f_, [])
        rep.ob("ISOLATION", "%s|single-namespace" % f_, rr == [("[]", "namespace")],
               "%s reads exactly the namespace selected by its namespace id (%s)" % (f_, rr))
    # a member of a namespace comes from that namespace or from nowhere: once `a` in `a.b` names a namespace, the arm looks
    # `b` up there only - falling back to the ordinary lookup binds `config.retries` to the accessing file's own `retries`
    asg0 = F.fn(R + "assignable")
    n_ns = 0
    for mm in nodes(fn_body(asg0), "Match"):
        scr = peel(mm["scrut"])
        if not (scr.get("k") == "MethodCall" and callee(scr) == R + "namespace_list"):
            continue
        for a2 in mm["arms"]:
            if not any((pat_variant(x) or "").endswith("Option::Some") for x in pat_alternatives(a2["pat"])):
                continue
            n_ns += 1
            ns_h = {b["hid"] for b in pat_bindings(a2["pat"])}
            other = []
            for c in nodes(a2["body"], "MethodCall"):
                cal = callee(c) or ""
                if cal in (R + "lookup", R + "lookup_global", R + "find_similar_name") :
                    if cal == R + "lookup" or not (c["args"] and peel(c["args"][0]).get("hid") in ns_h):
                        other.append(c)
            rep.ob("ISOLATION", "assignable|namespace-member-from-that-namespace-only", not other,
                   "`ns.name`: the name is looked up in the namespace `ns` only" if not other else
                   "`ns.name` with a namespace `ns`: besides the namespace the arm also calls %s - a member the module does not have is "
                   "silently taken from the scope of the accessing file (`config.retries` binds to main's own `retries`)" % (
                       ", ".join(sorted({last(callee(c)) for c in other}))), line_of(other[0]) if other else line_of(a2))
    if not n_ns:
        rep.anchor_missing("match on namespace_list(..) in Resolver::assignable")
    # .. the same for a qualified *type* `ns.Type` (an annotation, the head of a blob literal): once the path in front is
    # resolved to a namespace the type comes from that namespace's table - lookup() would start at the scope stack, where a
    # parameter or local called `Type` sits
    ta = F.fn(R + "ty_assignable")
    rep.analysed(ta)
    n_ty = 0
    for mm in matches_on(fn_body(ta), "sylt_parser::TypeAssignableKind"):
        for a2, alt2, vp2 in arm_alternatives(mm):
            if not vp2 or last(vp2) != "Access":
                continue
            n_ty += 1
            ns_h = set()
            for st in nodes(a2["body"], "Let"):
                if st.get("init") is not None and any(callee(c) == R + "namespace_type_list" for c in nodes(st["init"], "MethodCall")):
                    ns_h |= {b["hid"] for b in pat_bindings(st["pat"])}
            other = []
            member = 0
            for c in nodes(a2["body"], "MethodCall"):
                cal = callee(c) or ""
                if cal == R + "lookup":
                    other.append(c)
                elif cal == R + "lookup_global":
                    if c["args"] and peel(c["args"][0]).get("hid") in ns_h:
                        member += 1
                    else:
                        other.append(c)
            rep.ob("ISOLATION", "ty_assignable|namespace-member-from-that-namespace-only", member > 0 and not other,
                   "`ns.Type`: the type is looked up in the namespace `ns` only" if member > 0 and not other else
                   "`ns.Type` with a namespace `ns`: the arm resolves the type through %s instead of the table of `ns` alone - a "
                   "parameter, local or case binding called `Type` in the accessing function is taken for the module's type "
                   "(`fn Circle: Square do shapes.Circle { side: 1 } end` builds a Square)" % (
                       ", ".join(sorted({last(callee(c)) for c in other})) or "nothing it can be followed through"),
                   line_of(other[0]) if other else line_of(a2))
    if not n_ty:
        rep.anchor_missing("Access arm of Resolver::ty_assignable")
    # lookup passes the identifier's own file
    lk = F.fn(R + "lookup")
    args = [pp(peel(c["args"][0])) for c in nodes(fn_body(lk), "MethodCall") if callee(c) == R + "lookup_global"]
    rep.ob("ISOLATION", "lookup|own-file", args == ["span.file_id"], "an unqualified name is looked up in the file it is written in (%s)" % args, lk["sp"])
    asg = F.fn(R + "assignable")
    args = [pp(peel(c["args"][0])) for c in nodes(fn_body(asg), "MethodCall") if callee(c) == R + "namespace_list"]
    rep.ob("ISOLATION", "assignable|qualifier-from-own-file", args == ["span.file_id"], "a qualifier `a.b` starts from the namespaces visible in the file it is written in (%s)" % args, asg["sp"])
    # resolve(): two passes over all modules, declarations before imports
    rs = F.fn(NR + "resolve")
    seq = [last(callee(c)) for c in nodes(fn_body(rs), "MethodCall") if (callee(c) or "").startswith(R)]
    want = ["insert_namespace_and_add_definitions", "resolve_global_variables", "statement"]
    filt = [x for x in seq if x in want]
    rep.ob("ISOLATION", "resolve|passes", filt == want, "resolve(): all declarations are registered before any import is resolved, before any body (%s)" % filt, rs["sp"])


def import_names(F, rep):
    fn = F.fn(R + "resolve_global_variables")
    rep.analysed(fn)
    fl = Flow(fn, fn_body(fn))
    for m in matches_on(fn_body(fn), P + "statement::StatementKind"):
        for arm, alt, vp in arm_alternatives(m):
            if not vp:
                continue
            v = last(vp)
            if v == "FromUse":
                entries = [c for c in nodes(arm["body"], "MethodCall") if c["m"] == "entry"]
                key = pp(peel_clone(entries[0]["args"][0])) if entries else None
                var_src = None
                for hid, o in fl.origin.items():
                    if fl.names.get(hid) == "var" and o["kind"] == "let":
                        var_src = pp(o["src"])
                rep.ob("IMPORT-NAME", "FromUse|key", key == "var.name" and var_src == "import_as.as_ref().unwrap_or(import_name)",
                       "`from f use x as y`: visible as the alias if given, else as the imported name (key %s, var = %s)" % (key, var_src), line_of(arm))
                gets = [pp(peel_clone(c["args"][0])) for c in nodes(arm["body"], "MethodCall") if c["m"] == "get" and "from_ns" in pp(c["recv"])]
                # .. and what becomes visible is the binding that was found, as it is: a namespace stays the namespace of *its* file
                # (rebuilt around the module named in the `from`, `circle.unit` means a global of the exporter)
                made = [c for c in nodes(arm["body"], "Call") if (callee(c) or "").endswith(("Name::Namespace", "Name::Name"))
                        and not any(p_.get("k") in ("Pat",) for p_ in [c])]
                rep.ob("IMPORT-NAME", "FromUse|binding-copied-as-found", not made,
                       "`from f use x` makes x mean what it means in f: the binding is copied, never rebuilt" if not made else
                       "the FromUse arm builds a binding of its own (`%s`) instead of copying the one it found: a namespace that a module "
                       "re-exports (`from shapes/ use circle`) then stands for another file than the one it named in the exporter, and "
                       "`circle.unit` reads that file's global" % pp(made[0])[:60], line_of(made[0]) if made else line_of(arm))
                rep.ob("IMPORT-NAME", "FromUse|source-name", gets == ["import_name.name"], "the imported thing is looked up by its own name in the source file (%s)" % gets, line_of(arm))
            if v == "Use":
                entries = [c for c in nodes(arm["body"], "MethodCall") if c["m"] == "entry"]
                key = pp(peel_clone(entries[0]["args"][0])) if entries else None
                rep.ob("IMPORT-NAME", "Use|key", key in ("name.name()", "name.name().to_string()"), "`use p [as y]`: visible under NameIdentifier::name() (%s)" % key, line_of(arm))
            if v in ("Use", "FromUse"):
                # collisions: Occupied with a different entry -> error
                occ = False
                compares = False
                for mm in nodes(arm["body"], "Match"):
                    inserted = set()
                    for a2 in mm["arms"]:
                        if any((pat_variant(x) or "").endswith("Entry::Vacant") for x in pat_alternatives(a2["pat"])):
                            for c in nodes(a2["body"], "MethodCall"):
                                if c["m"] == "insert":
                                    inserted |= {x["hid"] for x in nodes(c["args"], "Path") if x.get("res") == "Local"}
                    for a2 in mm["arms"]:
                        if any((pat_variant(x) or "").endswith("Entry::Occupied") for x in pat_alternatives(a2["pat"])) and a2.get("guard"):
                            occ = any(c["m"] == "push" and "errs" in pp(c["recv"]) for c in nodes(a2["body"], "MethodCall"))
                            bound = {b["hid"] for b in pat_bindings(a2["pat"])}
                            for g in nodes(a2["guard"], "Binary"):
                                if g.get("op") in ("Ne", "Eq"):
                                    sides = [{x["hid"] for x in nodes(g[k], "Path") if x.get("res") == "Local"} for k in ("l", "r")]
                                    if (sides[0] & bound and sides[1] & inserted) or (sides[1] & bound and sides[0] & inserted):
                                        compares = g.get("op") == "Ne"
                # .. and nothing is tolerated before that comparison: an Occupied arm in front of it that is silent lets an import
                # disappear behind whatever holds the name (the file's own global, say) - the split program is accepted where the
                # unsplit one has two definitions of one name
                early = []
                for mm in nodes(arm["body"], "Match"):
                    if not any((pat_variant(x) or "").endswith("Entry::Vacant") for a2 in mm["arms"] for x in pat_alternatives(a2["pat"])):
                        continue
                    seen_compare = False
                    for a2 in mm["arms"]:
                        if not any((pat_variant(x) or "").endswith("Entry::Occupied") for x in pat_alternatives(a2["pat"])):
                            continue
                        is_cmp = a2.get("guard") is not None and any(g.get("op") in ("Ne", "Eq") for g in nodes(a2["guard"], "Binary")) and \
                            any(c["m"] == "push" and "errs" in pp(c["recv"]) for c in nodes(a2["body"], "MethodCall"))
                        if is_cmp:
                            seen_compare = True
                        elif not seen_compare:
                            early.append(a2)
                rep.ob("COLLISION", "%s|nothing-tolerated-before-the-comparison" % v, not early,
                       "%s: every occupied name goes through the comparison of the two entries" % v if not early else
                       "%s: an occupied name is tolerated by an arm in front of the comparison (`%s`): `from geometry use scale` next to an own "
                       "`scale :: 2` silently drops the import" % (v, pp(early[0].get("guard"))[:80] if early[0].get("guard") else "no guard"),
                       line_of(early[0]) if early else line_of(arm))
                rep.ob("COLLISION", "%s|occupied" % v, occ, "%s: a different entry already under that name is reported as a collision" % v, line_of(arm))
                rep.ob("COLLISION", "%s|compares-entries" % v, compares,
                       "%s: whether an occupied name is a collision is decided by comparing the existing entry with the entry being "
                       "inserted (`occ.get() != &to_insert`), so a second import is tolerated only when it denotes the same thing" % v,
                       line_of(arm))
    # ... and "the same thing" is the same module, wherever the import is written: an entry for a namespace carries the span
    # of the `use` that created it, so a comparison that includes the span makes a second `use b` (or an explicit `use math`,
    # which the prelude has already written into every file) a collision of b with itself
    adt = F.adt(NR + "Name")
    ns_fields = [f["ty"] for v_ in adt["variants"] if v_["name"] == "Namespace" for f in v_["fields"]]
    has_span = any("Span" in t for t in ns_fields)
    impls = [i for i in F.crates["sylt_compiler"]["impls"] if i["self_ty"].endswith("name_resolution::Name") and (i["trait"] or "").endswith("PartialEq")]
    derived = bool(impls) and all(i.get("derived") for i in impls)
    rep.ob("COLLISION", "Name|equality-ignores-the-import-site", bool(impls) and not (derived and has_span),
           "two entries for the same module are equal wherever they were imported (%s)" % (
               "Namespace carries no span" if not has_span else "PartialEq for Name is written by hand") if impls and not (derived and has_span) else
           "Name::Namespace carries the span of the import and Name's equality is the derived one: importing the same module twice "
           "(`use b` / `use b`, or `use math`, which the prelude already wrote into the file) is reported as a name collision - for "
           "`use math` inside the standard library preamble", adt.get("sp"))
    # parser side: alias vs implicit name
    st = F.fn(P + "statement::statement")
    txt = pp(fn_body(st))
    rep.ob("IMPORT-NAME", "parser|alias", "NameIdentifier::Alias(Identifier::new(" in txt, "`use p as y` records the alias identifier", st["sp"])
    rep.ob("IMPORT-NAME", "parser|implicit-stem", "file_stem()" in txt and "NameIdentifier::Implicit(" in txt,
           "`use p` records the file stem of the path as the name", st["sp"])
    ni = F.fn(P + "statement::NameIdentifier::ident")
    rep.ob("IMPORT-NAME", "NameIdentifier::ident", "Implicit" in pp(fn_body(ni)) and "Alias" in pp(fn_body(ni)), "name() returns the alias or the implicit name", ni["sp"])
    rep.info("re-exports (`from a use x` where a itself imported x) resolve only if a was processed earlier: resolve_global_variables is a single pass over the modules in visit order")


def path_forms(F, rep):
    fn = F.fn(P + "statement::use_path")
    rep.analysed(fn)
    body = fn_body(fn)
    # library test first
    ifs = [i for i in nodes(body, "If")]
    lib_first = False
    for i in ifs:
        c = peel(i["c"])
        if c.get("k") == "LetCond" and callee(peel(c["init"])) == "sylt_common::library_name":
            lib_first = "FileOrLib::Lib" in pp(i["t"])
    rep.ob("PATH-FORMS", "library", lib_first, "a path naming a standard-library module resolves to FileOrLib::Lib", fn["sp"])
    # ... a *bare* name only: `math/` is the folder math (its exports.sy) and `/math` the file math.sy in the source root, as the
    # guide documents for every name - the library test must see the path as written, not the name with its slashes trimmed off
    fl0 = Flow(fn, body)
    arg_trimmed = None
    for c_ in nodes(body, "Call"):
        if callee(c_) == "sylt_common::library_name" and c_["args"]:
            src = fl0.trace(c_["args"][0])
            txt = pp(src) if isinstance(src, dict) else ""
            arg_trimmed = "trim_start_matches" in txt or "trim_end_matches" in txt or "trim_matches" in txt
    slash_guard = any("contains" in pp(i["c"]) and "/" in pp(i["c"]) for i in ifs)
    rep.ob("PATH-FORMS", "library|only-bare-names", arg_trimmed is False or slash_guard,
           "the standard-library lookup sees the path as written: only a name without slashes can name a library module" if (arg_trimmed is False or slash_guard) else
           "use_path() looks the name up among the standard-library modules *after* trimming its slashes: `use math/ as m` next to a "
           "folder math/ (exports.sy) and `use /math as m` next to math.sy silently import the standard library's math instead of "
           "the documented folder / root-relative file", fn["sp"])
    # parent: if path.starts_with("/") { ctx.root } else { file.parent() }
    parent_ok = False
    fl = Flow(fn, body)

    def untrimmed(e):
        """the expression denotes the path as written (path_ident.name), not the copy with the slashes trimmed off"""
        e = peel_clone(e)
        t = fl.trace(e)
        txt = pp(t)
        t0 = peel_clone(t)
        while t0.get("k") in ("Unary", "AddrOf", "Ref"):
            t0 = peel_clone(t0["e"])
        is_ident_name = t0.get("k") == "Field" and t0["name"] == "name" and "sylt_parser::Identifier" in (t0.get("base_ty") or "")
        return "trim" not in txt and is_ident_name
    for i in ifs:
        c = peel(i["c"])
        if c.get("k") == "MethodCall" and c["m"] == "starts_with" and peel(c["args"][0]).get("v") == "/":
            parent_ok = untrimmed(c["recv"]) and "root" in pp(i["t"]) and "parent()" in pp(i.get("e"))
    rep.ob("PATH-FORMS", "root-vs-relative", parent_ok, "a leading `/` selects the source root, otherwise the directory of the importing file", fn["sp"])
    # the path names one file: its segments are separated by `/` - two names with nothing between them are not one name
    fpath = F.fn(P + "statement::path")
    rep.analysed(fpath)
    pb = fn_body(fpath)
    seg_ok = None
    for lp in [n_ for n_ in nodes(pb) if n_.get("k") in ("Loop", "While", "ForLoop")]:
        pushes = [c_ for c_ in nodes(lp, "MethodCall") if c_["m"] in ("push_str", "push") and "String" in (c_.get("recv_ty") or "")]
        if not pushes:
            continue
        seg_ok = False
        for i_ in nodes(lp, "If"):
            if "Slash" not in pp(i_["c"]):
                continue
            neg = pp(i_["c"]).lstrip("(").startswith(("!", "Not", "not"))
            other = i_["t"] if neg else i_.get("e")
            if other is not None and any(x.get("k") in ("Break", "Ret") for x in nodes(other)):
                seg_ok = True
        for m_ in nodes(lp, "Match"):
            for a_ in m_["arms"]:
                if "Slash" not in pp(a_["pat"]) and any(x.get("k") in ("Break", "Ret") for x in nodes(a_["body"])) and \
                        any("Slash" in pp(b_["pat"]) for b_ in m_["arms"]):
                    seg_ok = True
    if seg_ok is None:
        rep.anchor_missing("the segment loop of statement::path")
    else:
        rep.ob("PATH-FORMS", "path|segments-joined-by-slash", seg_ok,
               "a path ends at the first name that is not followed by `/`" if seg_ok else
               "statement::path() keeps appending identifiers whether or not a `/` stands between them: `use e_ m` is accepted and "
               "loads e_m.sy under the name `e_m` - a module nobody named", fpath["sp"])
    # .. and the two agree for the main file: a rooted import written in the main directory and a relative import of the same
    # file must spell the same PathBuf (the loader's visited set and the resolver's tables are keyed by it), so the source
    # root is the main path's parent() - the operation relative imports apply to the importing file - whenever it has one
    tr = F.fn(P + "tree")
    tb = fn_body(tr)
    flt = Flow(tr, tb)
    main_params = {b["hid"] for prm in tr["params"] for b in pat_bindings(prm["pat"]) if "Path" in prm["ty"]}
    roots = []
    for c_ in nodes(tb, "Call"):
        if callee(c_) == P + "module" and len(c_["args"]) >= 3:
            roots.append(c_["args"][2])
    verdicts = []
    for r_ in roots:
        src = peel_clone(flt.trace(r_))
        verdicts.append(_is_parent_of(src, main_params))
    root_ok = bool(verdicts) and all(v is True for v in verdicts)
    rep.ob("PATH-FORMS", "root|is-the-main-file's-directory", root_ok,
           "the source root handed to every module() is `path.parent()` of the main file, replaced only when there is none" if root_ok else
           "the source root handed to module() is not simply the main file's parent() (%s): rooted imports (`use /counter`) then spell "
           "a file differently from relative imports of it (`use counter` in main.sy started as `sylt main.sy`), the loader "
           "visits it twice and the program gets two copies of its globals" % [v for v in verdicts if v is not True], tr["sp"])
    # join(if path == "/" {"exports.sy"} else if ends_with("/") {"{}/exports.sy"} else {"{}.sy"})
    table = []
    for c in nodes(body, "MethodCall"):
        if c["m"] == "join":
            arg = peel(c["args"][0])
            cur = arg
            while isinstance(cur, dict) and cur.get("k") == "If":
                cond = pp(cur["c"])
                cc = peel(cur["c"])
                recv = cc.get("recv") if cc.get("k") == "MethodCall" else cc.get("l") if cc.get("k") == "Binary" else None
                if recv is None or not untrimmed(recv):
                    cond = "TRIMMED-OR-UNKNOWN:" + cond
                fmts = [format_text(p, lambda d: "{}") for _, p in find_formats(cur["t"])]
                table.append((cond, fmts[0] if fmts else "?"))
                cur = peel(cur.get("e")) if cur.get("e") else None
                while isinstance(cur, dict) and cur.get("k") == "Block" and not cur["stmts"] and cur.get("e") is not None:
                    cur = peel(cur["e"])
            if isinstance(cur, dict):
                fmts = [format_text(p, lambda d: "{}") for _, p in find_formats(cur)]
                table.append(("else", fmts[0] if fmts else "?"))
    shape = [(("==" in c or " Eq " in c) and '"/"' in c, f) for c, f in table[:1]] + \
            [("ends_with(\"/\")" in c, f) for c, f in table[1:2]] + [(c == "else", f) for c, f in table[2:3]]
    ok = len(table) == 3 and all(x for x, _ in shape) and [f for _, f in table] == ["exports.sy", "{}/exports.sy", "{}.sy"]
    rep.ob("PATH-FORMS", "file-forms", ok,
           "`/` -> exports.sy ; trailing `/` -> <name>/exports.sy ; otherwise <name>.sy (extracted: %s)" % table, fn["sp"])
    # name = path trimmed of leading/trailing slashes
    t = pp(body)
    rep.ob("PATH-FORMS", "name-trimmed", 'trim_start_matches("/")' in t and 'trim_end_matches("/")' in t, "<name> is the path without leading/trailing `/`", fn["sp"])
    # documentation agrees
    doc = F.read("docs/guide.adoc")
    need = ['use b  // imports "b.sy"', 'use /d.sy  // imports "d.sy"', 'use d/  // imports "d/exports.sy"', 'use b as c']
    rep.ob("PATH-FORMS", "guide-documents-forms", all(n in doc for n in need[:1]) and "exports.sy" in doc and 'leading "/"' in doc,
           "docs/guide.adoc documents the relative form, the leading `/` form, the trailing `/` (exports.sy) form and aliases")
    # std files cannot import relative files
    rep.ob("PATH-FORMS", "lib-cannot-import-files", "Cannot import files from the standard library" in t, "a library module importing a file is a syntax error", fn["sp"])


def import_pass(F, rep, rule="IMPORT-PASS"):
    """`from m use x` copies m's entry for x into the importing module's namespace, eagerly.  m's namespace is itself being
    filled by the same pass (m's own `from .. use` lines), so whether x is there yet depends on which module is processed
    first - and that order comes from the order of `use` lines (the loader's LIFO visit).  The pass is order independent
    only if it is iterated to a fixed point (or the import is resolved lazily, like `use`)."""
    rs = F.fn(NR + "resolve")
    rgv = F.fn(R + "resolve_global_variables")
    rep.analysed(rs)
    rep.analysed(rgv)
    reads_other = any(c["m"] == "get" and "namespaces" in pp(c["recv"]) for c in nodes(fn_body(rgv), "MethodCall"))
    writes = any(c["m"] == "insert" for c in nodes(fn_body(rgv), "MethodCall"))
    iterated = False
    for n, parents in walk(fn_body(rs)):
        if n.get("k") == "MethodCall" and callee(n) == R + "resolve_global_variables":
            iterated = any(p.get("k") in ("Loop", "While") for p in parents)
    rep.ob(rule, "resolve|imports-reach-a-fixed-point", iterated or not (reads_other and writes),
           "the import pass is repeated until no namespace changes" if iterated else
           "resolve() runs resolve_global_variables once per module; its FromUse arm reads another module's namespace while "
           "that namespace is still being filled by the same pass: `from c use x`, where c has x only through its own "
           "`from d use x`, is accepted or rejected depending on whether c was processed before (the order of `use` lines)",
           rs["sp"])


def chained_namespace(F, rep, rule="ISOLATION"):
    """`a.b.x`: b is looked up in the namespace that `a` resolved to, not in the file the expression is written in.  In the
    Access arm of namespace_list (and of its type-level twin namespace_type_list) the namespace handed to lookup_global has
    to come from the recursive call on the prefix."""
    for fname in ("namespace_list", "namespace_type_list"):
        fn = F.fns.get(R + fname)
        if fn is None:
            rep.anchor_missing("Resolver::" + fname)
            continue
        rep.analysed(fn)
        fl = Flow(fn, fn_body(fn))
        params = {b["hid"] for prm in fn["params"] for b in pat_bindings(prm["pat"])}
        found = 0
        bad = []
        for m in nodes(fn_body(fn), "Match"):
            for arm in m["arms"]:
                if not any((pat_variant(a) or "").endswith("::Access") for a in pat_alternatives(arm["pat"])):
                    continue
                for c in nodes(arm["body"], "MethodCall"):
                    if callee(c) != R + "lookup_global":
                        continue
                    found += 1
                    a0 = peel(c["args"][0])
                    ok = any(callee(x) == R + fname for x in nodes(c["args"][0]) if x.get("k") in ("MethodCall", "Call"))
                    if not ok and a0.get("k") == "Path" and a0.get("res") == "Local" and a0["hid"] not in params:
                        o = fl.origin.get(a0["hid"])
                        src = o.get("src") if o else None
                        if src is not None and any(callee(x) == R + fname for x in nodes(src) if x.get("k") in ("MethodCall", "Call")):
                            ok = True
                    if not ok:
                        bad.append(line_of(c))
        rep.ob(rule, "%s|Access|prefix-namespace" % fname, found > 0 and not bad,
               "in `a.b`, b is looked up in the namespace the prefix a resolved to (%d lookup(s))" % found if found and not bad else
               "Resolver::%s looks the member of a qualified name up in a namespace that does not come from resolving its "
               "prefix (the current file's own): `a.b.x` finds the importing file's `b` instead of a's" % fname,
               bad[0] if bad else fn["sp"])


def found_member_is_the_answer(F, rep, rule="ISOLATION"):
    """`ns.name` - as a value, an assignment target or a type - means whatever the namespace `ns` binds `name` to: its own
    definitions and what it imported with `from .. use` alike (a module can hand a type on).  Where the resolver looks a member up with
    lookup_global and splits on the result, the arm for a found name has no condition of its own and is no error."""
    n = 0
    for fname in ("assignable", "ty_assignable", "expression", "ty"):
        fn = F.fns.get(R + fname)
        if fn is None:
            continue
        fl_ = Flow(fn, fn_body(fn))
        for m in nodes(fn_body(fn), "Match"):
            sc = peel(m["scrut"])
            if sc.get("k") == "Path" and sc.get("res") == "Local":
                # the result of the lookup bound to a name first: `let found = self.lookup_global(..); match found { .. }`
                tr_ = fl_.trace(sc)
                sc = peel(tr_) if isinstance(tr_, dict) else sc
            if not any(callee(c) == R + "lookup_global" for c in nodes(sc) if c.get("k") == "MethodCall"):
                continue
            from hir import ppat as _ppat
            hits = [a for a in m["arms"] if "Name::Name(" in _ppat(a["pat"])]
            if not hits:
                continue
            n += 1
            bad = [a for a in hits if a.get("guard") is not None or tc_err(a["body"])]
            rep.ob(rule, "%s|member-found-in-the-namespace-is-taken#%d" % (fname, n), not bad,
                   "a name the namespace binds is the answer, without a further test" if not bad else
                   "Resolver::%s does not take every name the namespace binds (`%s`): a type or value a module imported with `from .. use` "
                   "and hands on is `not found` when it is written with the module's name in front (`facade.Point` in an annotation), "
                   "while the unqualified or unannotated program compiles" % (fname, (pp(bad[0]["guard"]) if bad[0].get("guard") is not None else "an error arm")[:70]),
                   line_of(bad[0]) if bad else line_of(m))
    rep.floor(rule, "case splits on the result of a member lookup", n, 2)


def tc_err(e):
    import tc as _tc
    return _tc.is_err_value(e) or ("Err" in pp(e)[:200] and any(r.get("k") == "Ret" for r in nodes(e)))


def _is_parent_of(e, params):
    """True when `e` is <param>.parent() with a replacement for the None case only; otherwise a description"""
    e = peel_clone(e)
    if not isinstance(e, dict):
        return "unknown"
    if e.get("k") == "MethodCall" and e["m"] in ("unwrap_or_else", "unwrap_or", "unwrap", "expect", "unwrap_or_default"):
        r = peel_clone(e["recv"])
        if r.get("k") == "MethodCall" and r["m"] == "parent" and peel_clone(r["recv"]).get("hid") in params:
            return True
        return "fallback applied to `%s`" % pp(r)[:60]
    if e.get("k") == "Match":
        scr = peel_clone(e["scrut"]) if "scrut" in e else peel_clone(e.get("e"))
        if not (isinstance(scr, dict) and scr.get("k") == "MethodCall" and scr["m"] == "parent" and peel_clone(scr["recv"]).get("hid") in params):
            return "match on `%s`" % pp(scr)[:60]
        for a in e["arms"]:
            from hir import pat_alternatives, pat_variant
            for alt in pat_alternatives(a["pat"]):
                v = pat_variant(alt) or ""
                if v.endswith("Some"):
                    bs = pat_bindings(alt)
                    body = peel_clone(a["body"])
                    if a.get("guard") is not None:
                        return "the Some arm is guarded: some parents are replaced"
                    if not (len(bs) == 1 and body.get("k") == "Path" and body.get("hid") == bs[0]["hid"]):
                        return "the Some arm yields `%s`" % pp(body)[:60]
        return True
    return "`%s`" % pp(e)[:80]


def file_ids_unique(F, rep, rule="FILE-ID"):
    """A module's id (the file_id in every span of its tokens) is what tells its diagnostics and its globals from another
    module's.  It is taken from the size of a collection; that collection has to grow by one for *every* module that gets an id -
    unconditionally, in the same turn of the loop - or two modules share an id (a file that fails to parse is not pushed to
    `modules`: the next file gets the same id, and two errors at equal positions in the two files become one)."""
    fn = F.fn("sylt_parser::tree")
    rep.analysed(fn)
    n = 0
    for lp in [x for x in nodes(fn_body(fn)) if x.get("k") in ("While", "Loop", "ForLoop")]:
        body = peel(lp["body"])
        if body.get("k") != "Block":
            continue
        stmts = body["stmts"]
        for i, st in enumerate(stmts):
            if st.get("k") != "Let" or st.get("init") is None:
                continue
            init = peel(st["init"])
            bs = pat_bindings(st["pat"])
            if not (init.get("k") == "MethodCall" and init["m"] == "len" and len(bs) == 1 and "id" in bs[0]["name"]):
                continue
            src = peel(init["recv"])
            if not (src.get("k") == "Path" and src.get("res") == "Local"):
                continue
            n += 1
            grows = False
            for later in stmts[i + 1:]:
                e = later.get("e") if later.get("k") in ("Semi", "ExprStmt") else (later.get("init") if later.get("k") == "Let" else None)
                e = peel(e) if isinstance(e, dict) else None
                if isinstance(e, dict) and e.get("k") == "MethodCall" and e["m"] in ("insert", "push") and peel(e["recv"]).get("hid") == src["hid"]:
                    grows = True
            rep.ob(rule, "tree|%s-from-a-collection-that-grows-every-turn" % bs[0]["name"], grows,
                   "`%s` is the size of `%s`, which grows by one in every turn that hands out an id" % (bs[0]["name"], src.get("name")) if grows else
                   "`%s` is the size of `%s`, but `%s` does not grow unconditionally in the turn that takes the id (a file that fails to parse "
                   "is not added): the next file gets the same id - spans of two files compare equal, errors at equal positions are "
                   "merged and diagnostics name the wrong file" % (bs[0]["name"], src.get("name"), src.get("name")), line_of(st))
    rep.floor(rule, "ids taken from collection sizes in tree()", n, 1)
