"""SCOPE — abstract interpretation of the height of `Resolver.stack` (DESIGN §3.2).

Heights are tracked relative to function entry as small sets of ints; None = unknown / grows (TOP).
`?` exits are ignored (resolution fails as a whole)."""
from hir import nodes, fn_body, callee, last, line_of, peel, norm_path, pat_alternatives, pat_variant
from engines import matches_on, ty_is

TOP = None
CAP = 4


def join(a, b):
    if a is TOP or b is TOP:
        return TOP
    r = frozenset(a) | frozenset(b)
    if any(abs(x) > CAP for x in r):
        return TOP
    return r


def add(h, d):
    """h + d where both are sets (or TOP)"""
    if h is TOP or d is TOP:
        return TOP
    r = frozenset(x + y for x in h for y in d)
    if any(abs(x) > CAP for x in r):
        return TOP
    return r


BOTTOM = frozenset()


class State:
    def __init__(self, h=frozenset([0]), markers=None):
        self.h = h  # frozenset of heights, BOTTOM if unreachable, TOP if unknown
        self.markers = dict(markers or {})

    def copy(self):
        return State(self.h, self.markers)


class Scope:
    def __init__(self, F, struct_prefix, stack_field="stack", contracts=None):
        self.F = F
        # assume/guarantee: functions with a contract are *assumed* to meet it at every call site
        # (also recursive ones) and their bodies are checked against it separately; by induction on
        # the call depth this is sound and keeps one unbalanced construct from tainting every caller
        self.contracts = dict(contracts or {})
        self.prefix = struct_prefix  # e.g. sylt_compiler::name_resolution::Resolver::
        self.stack_field = stack_field
        self.summary = {}  # fn path -> frozenset / TOP
        self.fns = {f["_path"]: f for f in F.fns_in(struct_prefix)}
        self.exits = None
        self.notes = []
        self.loop_leaks = []

    # ---- helpers
    def is_stack(self, e):
        e = peel(e)
        return isinstance(e, dict) and e.get("k") == "Field" and e["name"] == self.stack_field and \
            isinstance(peel(e["e"]), dict) and peel(e["e"]).get("k") == "Path" and peel(e["e"]).get("name") == "self"

    def solve(self):
        for p in self.fns:
            self.summary[p] = self.contracts.get(p, frozenset([0]))
        for _ in range(12):
            changed = False
            for p, fn in self.fns.items():
                if p in self.contracts:
                    continue
                s = self.run_fn(fn)
                if s != self.summary[p]:
                    self.summary[p] = s
                    changed = True
            if not changed:
                break
        # what the bodies of contracted functions actually do, under the assumptions
        self.actual = {p: self.run_fn(fn) for p, fn in self.fns.items()}
        return self.summary

    def run_fn(self, fn):
        self.exits = BOTTOM
        st = State()
        st = self.ev(fn_body(fn), st)
        return join(self.exits, st.h) if st.h != BOTTOM else self.exits

    # ---- evaluation
    def ev_seq(self, items, st):
        for x in items:
            st = self.ev(x, st)
        return st

    def ev(self, n, st):
        if n is None or not isinstance(n, dict):
            return st
        if st.h == BOTTOM:
            return st
        k = n.get("k")
        if k == "Block":
            for s in n["stmts"]:
                if s["k"] == "Let":
                    st = self.ev(s.get("init"), st)
                    init = peel(s.get("init")) if s.get("init") else None
                    if init is not None and init.get("k") == "MethodCall" and init["m"] == "len" and self.is_stack(init["recv"]):
                        p = s["pat"]
                        if p.get("k") == "Binding":
                            st.markers[p["hid"]] = st.h
                    if s.get("els"):
                        # let-else: the else block diverges
                        pass
                elif s["k"] in ("Semi", "ExprStmt"):
                    st = self.ev(s["e"], st)
            return self.ev(n.get("e"), st)
        if k == "MethodCall":
            if self.is_stack(n["recv"]):
                for a in n["args"]:
                    st = self.ev(a, st)
                m = n["m"]
                if m == "push":
                    st.h = add(st.h, frozenset([1]))
                    self.raw_pushes = getattr(self, "raw_pushes", 0) + 1
                elif m == "pop":
                    st.h = add(st.h, frozenset([-1]))
                elif m == "truncate":
                    a = peel(n["args"][0])
                    if a.get("k") == "Path" and a.get("res") == "Local" and a["hid"] in st.markers:
                        st.h = st.markers[a["hid"]]
                    else:
                        st.h = TOP
                elif m == "clear":
                    guard_h = getattr(self, "_empty_guard", None)
                    if guard_h is not None:
                        st.h = guard_h
                    else:
                        self.notes.append(("clear-unguarded", line_of(n)))
                        st.h = TOP
                elif m in ("append", "extend", "resize", "insert", "remove", "drain", "retain", "split_off", "swap_remove"):
                    st.h = TOP
                return st
            st = self.ev(n["recv"], st)
            clos = [a for a in n["args"] if a.get("k") == "Closure"]
            for a in n["args"]:
                if a.get("k") != "Closure":
                    st = self.ev(a, st)
            c = callee(n)
            if c in self.fns:
                st.h = add(st.h, self.summary.get(c, frozenset([0])))
            for cl in clos:
                st = self.ev_repeated(cl["body"], st)
            return st
        if k == "Call":
            for a in n["args"]:
                if a.get("k") == "Closure":
                    st = self.ev_repeated(a["body"], st)
                else:
                    st = self.ev(a, st)
            c = callee(n)
            if c in self.fns:
                st.h = add(st.h, self.summary.get(c, frozenset([0])))
            return st
        if k == "If":
            cond = peel(n["c"])
            st = self.ev(n["c"], st)
            guard = None
            if cond.get("k") == "MethodCall" and cond["m"] == "is_empty" and self.is_stack(cond["recv"]):
                guard = st.h
            old = getattr(self, "_empty_guard", None)
            self._empty_guard = guard if guard is not None else old
            a = self.ev(n["t"], st.copy())
            self._empty_guard = old
            b = self.ev(n.get("e"), st.copy()) if n.get("e") else st.copy()
            return self.merge(a, b)
        if k == "Match":
            st = self.ev(n["scrut"], st)
            out = None
            for arm in n["arms"]:
                s2 = st.copy()
                if arm.get("guard"):
                    s2 = self.ev(arm["guard"], s2)
                s2 = self.ev(arm["body"], s2)
                out = s2 if out is None else self.merge(out, s2)
            return out if out is not None else st
        if k in ("ForLoop", "While", "Loop"):
            if k == "ForLoop":
                st = self.ev(n["iter"], st)
            if k == "While":
                st = self.ev(n["cond"], st)
            return self.ev_repeated(n["body"], st)
        if k == "Closure":
            return st  # evaluated where it is passed to a call
        if k == "Ret":
            st = self.ev(n.get("e"), st)
            self.exits = join(self.exits, st.h) if st.h != BOTTOM else self.exits
            st.h = BOTTOM
            return st
        if k == "Try":
            return self.ev(n["e"], st)
        if k == "LetCond":
            return self.ev(n["init"], st)
        if k == "Struct":
            for f in n["fields"]:
                st = self.ev(f["e"], st)
            return self.ev(n.get("base"), st)
        if k == "Break" or k == "Continue":
            return st
        # generic: evaluate children in order
        from hir import children
        for c in children(n):
            if isinstance(c, dict) and "k" in c:
                st = self.ev(c, st)
        return st

    def ev_repeated(self, body, st):
        """body executed 0..n times: its net effect must be {0}, else the height is unknown"""
        s2 = State(frozenset([0]), st.markers)
        # markers captured outside stay valid relative to the outer frame only if we track offset; we
        # evaluate relative to the entry of the body and translate markers
        if st.h is TOP:
            self.ev(body, State(TOP, st.markers))
            return st
        base = st.h
        s2 = State(base, st.markers)
        raw_before = getattr(self, "raw_pushes", 0)
        s3 = self.ev(body, s2)
        raw_in_body = getattr(self, "raw_pushes", 0) > raw_before
        if s3.h == BOTTOM:
            return st
        if s3.h is TOP or s3.h != base:
            st.h = TOP
            # what one iteration (one child) leaves on the stack is in scope for the next child.  Declarations are meant
            # to accumulate (statements of a block, parameters: they go through statement()/push_var); an entry pushed
            # *directly* for the benefit of one child (`self` for a method field) is not
            if raw_in_body:
                self.loop_leaks.append((body, show(s3.h) if s3.h is not TOP else "unknown", show(base) if base is not TOP else "unknown"))
        return st

    def merge(self, a, b):
        if a.h == BOTTOM:
            return b
        if b.h == BOTTOM:
            return a
        m = dict(a.markers)
        m.update(b.markers)
        return State(join(a.h, b.h), m)

    # ---- per-arm effect of the top-level match over `enum` in fn
    def arm_effects(self, fn, enum):
        out = []
        body = fn_body(fn)
        for m in matches_on(body, enum):
            for arm in m["arms"]:
                self.exits = BOTTOM
                self._empty_guard = None
                st = self.ev(arm["body"], State())
                h = st.h if st.h != BOTTOM else BOTTOM
                h = join(self.exits, h) if h != BOTTOM else self.exits
                for alt in pat_alternatives(arm["pat"]):
                    v = pat_variant(alt)
                    out.append((last(v) if v else "_", h, arm))
            break
        return out


def show(h):
    if h is TOP:
        return "grows/unknown"
    if h == BOTTOM:
        return "diverges"
    return "{" + ",".join(("%+d" % x) if x else "0" for x in sorted(h)) + "}"
