"""PIPE — the operator pipeline token -> ExpressionKind -> BinOp/UniOp -> IR op -> Lua text (DESIGN §3.6)."""
from hir import (nodes, walk, fn_body, callee, last, line_of, peel, peel_clone, pp, norm_path, pat_alternatives, pat_variant,
                 pat_bindings, pat_strip, pat_fields, diverges)
from engines import matches_on, arm_alternatives, ty_is
from flow import Flow

TOK = "sylt_tokenizer::token::Token"
EK = "sylt_parser::expression::ExpressionKind"
NR = "sylt_compiler::name_resolution::"
R = NR + "Resolver::"
P = "sylt_parser::expression::"


def _origin_names(fl, e, depth=0):
    """names of parameters / callee functions an expression is derived from (through Box::new, clone, lets)"""
    e = peel_clone(e)
    out = set()
    if depth > 10 or not isinstance(e, dict):
        return out
    k = e.get("k")
    if k == "Call" and (callee(e) or "").endswith("Box::new"):
        return _origin_names(fl, e["args"][0], depth + 1)
    if k == "Try":
        return _origin_names(fl, e["e"], depth + 1)
    if k in ("Call", "MethodCall"):
        c = callee(e)
        if c:
            out.add("call:" + last(c))
        return out
    if k == "Path" and e.get("res") == "Local":
        o = fl.origin.get(e["hid"])
        if o is None:
            return out
        if o["kind"] == "param":
            out.add("param:" + e["name"])
        elif o["src"] is not None:
            out |= _origin_names(fl, o["src"], depth + 1)
        return out
    return out


def parser_infix(F):
    """{Token: (ExpressionKind ctor, sub-kind or None, operand order ok?)} from sylt_parser::expression::infix
    plus the set of tokens the validity match lets through and the right-operand precedence expression"""
    fn = F.fn(P + "infix")
    body = fn_body(fn)
    fl = Flow(fn, body)
    table = {}
    valid = set()
    ms = [m for m in nodes(body, "Match") if ty_is(m.get("scrut_ty", ""), TOK)]
    for m in ms:
        arms_ctor = 0
        for arm in m["arms"]:
            b = peel(arm["body"])
            if b.get("k") == "Call" and (callee(b) or "").startswith(EK + "::"):
                arms_ctor += 1
        if arms_ctor:
            for arm in m["arms"]:
                b = peel(arm["body"])
                if not (b.get("k") == "Call" and (callee(b) or "").startswith(EK + "::")):
                    continue
                ctor = last(callee(b))
                args = b["args"]
                sub = None
                operands = args
                if ctor == "Comparison":
                    sub = last(norm_path(peel(args[1]).get("path", "?")))
                    operands = [args[0], args[2]]
                l = _origin_names(fl, operands[0])
                r = _origin_names(fl, operands[1]) if len(operands) > 1 else set()
                order_ok = "param:lhs" in l and "call:parse_precedence" in r and "param:lhs" not in r
                for alt in pat_alternatives(arm["pat"]):
                    v = pat_variant(alt)
                    if v:
                        table[last(v)] = (ctor, sub, order_ok, line_of(arm))
        else:
            # validity match: arms with empty body vs error
            for arm in m["arms"]:
                b = peel(arm["body"])
                empty = b.get("k") == "Block" and not b["stmts"] and b.get("e") is None
                if empty:
                    for alt in pat_alternatives(arm["pat"]):
                        v = pat_variant(alt)
                        if v:
                            valid.add(last(v))
    # right operand: parse_precedence(ctx, precedence(op).next())
    rhs_prec = None
    for c in nodes(body, "Call"):
        if callee(c) == P + "parse_precedence":
            rhs_prec = c["args"][1]
    return fn, table, valid, rhs_prec


def parser_unary(F):
    fn = F.fn(P + "unary")
    body = fn_body(fn)
    table = {}
    for m in nodes(body, "Match"):
        if not ty_is(m.get("scrut_ty", ""), TOK):
            continue
        for arm in m["arms"]:
            b = peel(arm["body"])
            if b.get("k") == "Call" and (callee(b) or "").startswith(EK + "::"):
                for alt in pat_alternatives(arm["pat"]):
                    v = pat_variant(alt)
                    if v:
                        table[last(v)] = last(callee(b))
    prec = None
    for c in nodes(body, "Call"):
        if callee(c) == P + "parse_precedence":
            prec = c["args"][1]
    return fn, table, prec


def resolver_ops(F):
    """{ExpressionKind[/ComparisonKind]: ('binop'|'uniop', OpName, order_ok)} from Resolver::expression"""
    fn = F.fn(R + "expression")
    body = fn_body(fn)
    table = {}

    def from_call(c, binds_by_hid):
        cal = callee(c)
        if cal == R + "binop":
            op = last(norm_path(peel(c["args"][0]).get("path", "?")))
            a, b = peel(c["args"][1]), peel(c["args"][2])
            return ("binop", op, (binds_by_hid.get(a.get("hid")), binds_by_hid.get(b.get("hid"))))
        if cal == R + "uniop":
            op = last(norm_path(peel(c["args"][0]).get("path", "?")))
            a = peel(c["args"][1])
            return ("uniop", op, (binds_by_hid.get(a.get("hid")),))
        return None

    for m in matches_on(body, EK):
        for arm in m["arms"]:
            for alt in pat_alternatives(arm["pat"]):
                v = pat_variant(alt)
                if not v:
                    continue
                name = last(v)
                p = pat_strip(alt)
                pos = {}
                if p.get("k") == "TupleStruct":
                    for i, sub in enumerate(p["pats"]):
                        for b in pat_bindings(sub):
                            pos[b["hid"]] = i
                inner = [mm for mm in nodes(arm["body"], "Match") if ty_is(mm.get("scrut_ty", ""), P + "ComparisonKind")]
                if inner:
                    for a2 in inner[0]["arms"]:
                        for alt2 in pat_alternatives(a2["pat"]):
                            v2 = pat_variant(alt2)
                            for c in nodes(a2["body"], "MethodCall"):
                                r = from_call(c, pos)
                                if r and v2:
                                    table[name + "/" + last(v2)] = r + (line_of(a2),)
                    continue
                for c in nodes(arm["body"], "MethodCall"):
                    r = from_call(c, pos)
                    if r:
                        table[name] = r + (line_of(arm),)
                        break
        break
    # binop()/uniop() keep the order: field a from param a, b from param b, a resolved first
    checks = {}
    for helper, fields in (("binop", ["a", "b"]), ("uniop", ["a"])):
        hf = F.fn(R + helper)
        fl = Flow(hf, fn_body(hf))
        ok = False
        for s in nodes(fn_body(hf), "Struct"):
            if s["path"].endswith("Expression::BinOp") or s["path"].endswith("Expression::UniOp"):
                good = True
                for f in s["fields"]:
                    if f["name"] in fields:
                        good = good and ("param:" + f["name"]) in _deep_params(fl, f["e"])
                    if f["name"] == "op":
                        good = good and "param:op" in _deep_params(fl, f["e"])
                ok = good
        checks[helper] = (ok, hf["sp"])
    return fn, table, checks


def _deep_params(fl, e, depth=0):
    """parameters an expression is derived from, also through self.expression(x)?"""
    e = peel_clone(e)
    out = set()
    if depth > 10 or not isinstance(e, dict):
        return out
    k = e.get("k")
    if k == "Try":
        return _deep_params(fl, e["e"], depth + 1)
    if k in ("Call", "MethodCall"):
        for a in (e.get("args") or []):
            out |= _deep_params(fl, a, depth + 1)
        return out
    if k == "Path" and e.get("res") == "Local":
        o = fl.origin.get(e["hid"])
        if o is None:
            return out
        if o["kind"] == "param":
            out.add("param:" + e["name"])
        elif o["src"] is not None:
            out |= _deep_params(fl, o["src"], depth + 1)
    return out


def assign_ops(F):
    """token -> Op (parser statement::assignment) and Op -> BinOp (Resolver::statement)"""
    tok2op = {}
    for fn in F.fns_in("sylt_parser::statement::statement"):
        for m in nodes(fn_body(fn), "Match"):
            if not ty_is(m.get("scrut_ty", ""), TOK):
                continue
            for arm in m["arms"]:
                b = peel(arm["body"])
                if b.get("k") == "Path" and "::Op::" in norm_path(b.get("path", "")):
                    for alt in pat_alternatives(arm["pat"]):
                        v = pat_variant(alt)
                        if v:
                            tok2op[last(v)] = last(norm_path(b["path"]))
    op2bin = {}
    fn = F.fn(R + "statement")
    for m in nodes(fn_body(fn), "Match"):
        if ty_is(m.get("scrut_ty", ""), "sylt_parser::Op"):
            for arm in m["arms"]:
                b = peel(arm["body"])
                if b.get("k") == "Path":
                    for alt in pat_alternatives(arm["pat"]):
                        v = pat_variant(alt)
                        if v:
                            op2bin[last(v)] = last(norm_path(b["path"]))
    return tok2op, op2bin
