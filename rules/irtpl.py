"""Symbolic evaluation of intermediate.rs: per arm of IRCodeGen::{expression, statement, definition,
expression_block, compile}, the sequence of IR ops it produces.

Items:  ("op", Variant, [args], where)       an IR constructor; args are symbolic values
        ("code", kind, child, extra)          code produced by a recursive call (kind: expr/stmt/block/def)
        ("rep", over, [items])                items repeated once per element of an AST collection
        ("alt", [[items], ...], labels)       alternatives (if / match)
Values: ("fresh", name, site, mult)           self.var() / self.label() at a let site; mult = enclosing repetitions
        ("result", child, mult)               result variable of self.expression(child)
        ("resvar", field)                     Var(*field): a resolver variable named by an AST field
        ("param", name)                       a parameter of the codegen function (out, var)
        ("list", value)                       Vec of values (one per element)
        ("tuplelist", [values])               Vec of tuples
        ("str", desc) / ("lit", v) / ("field", desc) / ("?", text)
"""
from hir import (nodes, walk, fn_body, callee, call_args, last, line_of, peel, peel_clone, pp, norm_path, pat_alternatives,
                 pat_variant, pat_bindings, pat_strip, pat_fields, diverges)
from engines import matches_on, arm_alternatives, ty_is
from flow import _pat_paths

CG = "sylt_compiler::intermediate::IRCodeGen::"
IRP = "sylt_compiler::intermediate::IR"
NR = "sylt_compiler::name_resolution::"


def is_code_ty(t):
    return "alloc::vec::Vec<sylt_compiler::intermediate::IR>" in t


def vec_macro_elems(e):
    """elements of a `vec![a, b, c]` expansion (box_assume_init_into_vec_unsafe(write_box_via_move(_, [..])))"""
    e = peel(e)
    if isinstance(e, dict) and e.get("k") == "Call" and (callee(e) or "").endswith("box_assume_init_into_vec_unsafe"):
        inner = peel(e["args"][0])
        if inner.get("k") == "Call" and (callee(inner) or "").endswith("write_box_via_move"):
            arr = peel(inner["args"][1])
            if arr.get("k") == "Array":
                return arr["es"]
    if isinstance(e, dict) and e.get("k") == "Call" and (callee(e) or "").endswith("slice::<impl [T]>::into_vec"):
        pass
    return None


def guard_set(g):
    """`matches!(x, A | B)` as a match guard -> (name of x, {A, B}); None for no / another kind of guard"""
    g = peel(g) if isinstance(g, dict) else None
    if not isinstance(g, dict) or g.get("k") != "Match":
        return None
    scr = peel(g["scrut"])
    while scr.get("k") == "Unary":
        scr = peel(scr["e"])
    if not (scr.get("k") == "Path" and scr.get("res") == "Local"):
        return None
    yes = set()
    for a in g["arms"]:
        b = peel(a["body"])
        if b.get("k") == "Lit" and b.get("v") is True:
            for alt in pat_alternatives(a["pat"]):
                v = pat_variant(alt)
                if v:
                    yes.add(last(v))
    return (scr["name"], yes) if yes else None


class Ev:
    def __init__(self, F, fn):
        self.F = F
        self.fn = fn
        self.body = fn_body(fn)
        self.site = 0
        self.unknown = []
        # the evaluator reads code vectors as values (literals, concatenations, maps over children); one that is built up by
        # mutation (push / extend inside a closure ..) has contents it cannot see - fail closed instead of reading it as empty
        for n_ in nodes(self.body, "MethodCall"):
            if n_["m"] in ("push", "extend", "append", "insert", "extend_from_slice", "push_front", "splice"):
                r_ = peel(n_["recv"])
                if r_.get("k") == "Path" and r_.get("res") == "Local" and is_code_ty(r_.get("ty", "")):
                    self.unknown.append(("code-vector-built-by-mutation", r_.get("name"), line_of(n_)))

    # ---- descriptors of AST children
    def child(self, e, env):
        """name the AST child an expression denotes: 'a', 'args[*]', 'branches[*].condition' ..."""
        e = peel_clone(e)
        if not isinstance(e, dict):
            return "?"
        k = e.get("k")
        if k == "Path" and e.get("res") == "Local":
            v = env.get(e["hid"])
            if v is not None and v[0] in ("ast", "param"):
                return v[1]
            return e["name"]
        if k == "Field":
            return self.child(e["e"], env) + "." + e["name"]
        if k == "Unary":
            return self.child(e["e"], env)
        if k == "MethodCall":
            if e["m"] in ("unwrap_or_else", "unwrap_or", "unwrap", "as_ref", "iter", "to_vec", "into_iter"):
                return self.child(e["recv"], env)
        return "?" + pp(e)[:30]

    # ---- values
    def val(self, e, env, mult):
        e = peel(e)
        if not isinstance(e, dict):
            return ("?", "")
        k = e.get("k")
        if k == "Path" and e.get("res") == "Local":
            v = env.get(e["hid"])
            if v is not None:
                return v
            return ("?", e["name"])
        if k == "MethodCall":
            c = callee(e)
            if c in (CG + "var", CG + "label"):
                self.site += 1
                return ("fresh", "tmp", self.site, mult)
            if e["m"] in ("clone", "into", "to_string", "to_owned", "cloned"):
                v = self.val(e["recv"], env, mult)
                return v
            if e["m"] in ("into_iter", "iter"):
                return self.val(e["recv"], env, mult)
            if e["m"] == "zip":
                a = self.val(e["recv"], env, mult)
                b = self.val(e["args"][0], env, mult)
                if a[0] == "list" and b[0] == "list":
                    return ("tuplelist", [a[1], b[1]])
            if e["m"] == "collect":
                return self.val(e["recv"], env, mult)
            if e["m"] == "map":
                base = self.val(e["recv"], env, mult)
                clo = [a for a in e["args"] if a.get("k") == "Closure"]
                if clo:
                    over = self.child(e["recv"], env)
                    env2 = dict(env)
                    self.bind_elem(clo[0]["params"][0], over + "[*]", env2, base)
                    inner = self.val(clo[0]["body"], env2, mult + (over,))
                    return ("list", inner)
        if k == "Call":
            c = callee(e) or ""
            if c == "sylt_compiler::intermediate::Var":
                return ("resvar", self.child(e["args"][0], env))
            if c.endswith("format") or c.endswith("must_use"):
                return ("str", "format")
        if k == "Field":
            base = self.val(e["e"], env, mult)
            if base[0] == "ast":
                return ("ast", base[1] + "." + e["name"])
            if base[0] == "callres" and e["name"] in ("0", "1"):
                return base[1][int(e["name"])]
            return ("field", self.child(e, env))
        if k == "Unary" and e.get("op") == "Deref":
            return self.val(e["e"], env, mult)
        if k == "Lit":
            return ("lit", e["v"])
        if k == "Tup":
            return ("tuple", [self.val(x, env, mult) for x in e["es"]])
        if k == "Block":
            env2 = dict(env)
            self.lets(e, env2, mult)
            if e.get("e") is not None:
                return self.val(e["e"], env2, mult)
        return ("?", pp(e)[:40])

    def bind_elem(self, pat, desc, env, base=None):
        """bind closure / for parameter pattern to element descriptors"""
        for b, path in _pat_paths(pat):
            d = desc
            v = None
            for el in path:
                if el[0] == "field":
                    d += "." + el[2]
                elif el[0] == "tuple":
                    d += ".%d" % el[1]
            if base is not None and base[0] == "list" and not path:
                env[b["hid"]] = base[1]
            elif base is not None and base[0] == "tuplelist" and len(path) == 1 and path[0][0] == "tuple":
                env[b["hid"]] = base[1][path[0][1]]
            else:
                env[b["hid"]] = ("ast", d)

    # ---- let processing
    def lets(self, blk, env, mult):
        for s in blk["stmts"]:
            if s.get("k") != "Let" or s.get("init") is None:
                continue
            init = peel(s["init"])
            # a call of a private helper that the loader inlined: `{ let <param> = <arg>; ..; <helper body> }` - bind the
            # parameters, then go on with the value the helper body yields
            hops = 0
            while init.get("k") == "Block" and init.get("e") is not None and hops < 6 and \
                    (init.get("inlined") or all(x.get("k") == "Let" for x in init["stmts"])):
                self.lets(init, env, mult)
                init = peel(init["e"])
                hops += 1
            pat = s["pat"]
            binds = list(_pat_paths(pat))
            # (code, value) = self.expression(child, ctx)
            if init.get("k") == "MethodCall" and callee(init) == CG + "expression":
                ch = self.child(init["args"][0], env)
                res = ("result", ch, mult)
                code = ("codeval", [("code", "expr", ch, res)])
                for b, path in binds:
                    if path == (("tuple", 0),):
                        env[b["hid"]] = code
                    elif path == (("tuple", 1),):
                        env[b["hid"]] = res
                    elif path == ():
                        env[b["hid"]] = ("callres", [code, res])
                continue
            if init.get("k") == "MethodCall" and callee(init) in (CG + "var", CG + "label"):
                self.site += 1
                for b, path in binds:
                    env[b["hid"]] = ("fresh", b["name"], self.site, mult)
                continue
            # unzip of a map over a collection
            if init.get("k") == "MethodCall" and init["m"] == "unzip":
                self.unzip(init, pat, env, mult)
                continue
            ty = binds[0][0]["ty"] if len(binds) == 1 and binds[0][1] == () else ""
            if is_code_ty(ty) :
                env[binds[0][0]["hid"]] = ("codeval", self.code(init, env, mult))
                continue
            if ty.strip().endswith("intermediate::IR"):
                # one instruction with a name of its own: `let store = IR::Assign(var, tmp);` .. `vec![store]`
                env[binds[0][0]["hid"]] = ("opval", self.op(init, env, mult))
                continue
            if len(binds) == 1 and binds[0][1] == ():
                env[binds[0][0]["hid"]] = self.val(init, env, mult)
                continue
            # tuple destructuring of a match/if producing (pre_code, current, post_code)
            if pat.get("k") == "Tuple" and init.get("k") in ("Match", "If"):
                self.tuple_alt(init, pat, env, mult)
                continue
            for b, path in binds:
                env[b["hid"]] = ("?", b["name"])

    def tuple_alt(self, init, pat, env, mult):
        """let (a, b, c) = match x { P => (ea, eb, ec), .. }: each binding becomes an alternative of values"""
        arms = []
        if init.get("k") == "Match":
            for arm in init["arms"]:
                if diverges(arm["body"]):
                    continue
                env2 = dict(env)
                label = self.bind_arm(arm, init, env2)
                b = peel(arm["body"])
                env3 = dict(env2)
                if b.get("k") == "Block":
                    self.lets(b, env3, mult)
                    b = peel(b["e"]) if b.get("e") is not None else b
                if b.get("k") == "Tup":
                    arms.append((label, b["es"], env3))
        n = len(pat["pats"])
        for i, sub in enumerate(pat["pats"]):
            for bnd in pat_bindings(sub):
                alts = []
                labels = []
                for label, es, env3 in arms:
                    if i < len(es):
                        t = es[i].get("ty", "")
                        if is_code_ty(t):
                            alts.append(self.code(es[i], env3, mult))
                        else:
                            alts.append(self.val(es[i], env3, mult))
                        labels.append(label)
                if alts and is_code_ty(bnd["ty"]):
                    env[bnd["hid"]] = ("codeval", [("alt", alts, labels)])
                else:
                    env[bnd["hid"]] = ("altval", alts, labels)

    def bind_arm(self, arm, m, env):
        """bind the pattern variables of a match arm over an AST node; returns a label for the arm"""
        label = []
        scr = self.child(m["scrut"], env)
        for alt in pat_alternatives(arm["pat"]):
            v = pat_variant(alt)
            label.append(last(v) if v else "_")
        # `P if matches!(x, A | B) => ..` followed by `P => ..`: record which values of x each arm is for, so that
        # alternatives taken from `match x` elsewhere in the template can be paired with the right arm
        g = guard_set(arm.get("guard"))
        arms = m.get("arms", [])
        if g is None and any(a is arm for a in arms):
            idx = [i for i, a in enumerate(arms) if a is arm][0]
            for prev in arms[:idx]:
                pg = guard_set(prev.get("guard"))
                if pg is not None and [last(pat_variant(x)) if pat_variant(x) else "_" for x in pat_alternatives(prev["pat"])] == label:
                    label = [l + "[%s:!%s]" % (pg[0], ",".join(sorted(pg[1]))) for l in label]
                    break
        elif g is not None:
            label = [l + "[%s:%s]" % (g[0], ",".join(sorted(g[1]))) for l in label]
        for b, path in _pat_paths(arm["pat"]):
            d = ""
            for el in path:
                if el[0] == "field":
                    if el[1].endswith("Option::Some"):
                        continue
                    d += ("." if d else "") + el[2]
            base = scr if scr not in ("expr", "stmt", "?") and not scr.startswith("?") else ""
            full = (base + "." + d) if base and d else (d or base)
            if b["hid"] not in env:
                env[b["hid"]] = ("ast", full)
        return "|".join(label)

    def unzip(self, init, pat, env, mult):
        """let (A, B) = xs.iter().map(|p| (ea, eb)).unzip();  leaves become lists / repeated code"""
        m = peel(init["recv"])
        if not (m.get("k") == "MethodCall" and m["m"] == "map"):
            for b in pat_bindings(pat):
                env[b["hid"]] = ("?", b["name"])
            return
        over = self.child(m["recv"], env)
        clo = [a for a in m["args"] if a.get("k") == "Closure"][0]
        env2 = dict(env)
        self.bind_elem(clo["params"][0], over + "[*]", env2)
        body = peel(clo["body"])
        mult2 = mult + (over,)

        def leaf(e):
            e = peel(e)
            if e.get("k") == "Tup":
                return ("tuple", [leaf(x) for x in e["es"]])
            if e.get("k") == "MethodCall" and callee(e) == CG + "expression":
                ch = self.child(e["args"][0], env2)
                res = ("result", ch, mult2)
                return ("tuple", [("codeval", [("code", "expr", ch, res)]), res])
            return self.val(e, env2, mult2)

        struct = leaf(body)

        def assign(p, st):
            p = pat_strip(p)
            if p.get("k") == "Tuple" and st[0] == "tuple":
                for sub, s2 in zip(p["pats"], st[1]):
                    assign(sub, s2)
            elif p.get("k") == "Binding":
                if st[0] == "codeval":
                    env[p["hid"]] = ("codeval", [("rep", over, st[1])])
                else:
                    env[p["hid"]] = ("list", st)
        assign(pat, struct)

    # ---- code
    def code(self, e, env, mult):
        """list of items for an expression of type Vec<IR> (or Vec<Vec<IR>>, flattened)"""
        e = peel(e)
        if not isinstance(e, dict):
            return [("?", "")]
        k = e.get("k")
        elems = vec_macro_elems(e)
        if elems is not None:
            out = []
            for el in elems:
                out += self.op(el, env, mult)
            return out
        if k == "Path" and e.get("res") == "Local":
            v = env.get(e["hid"])
            if v is not None and v[0] == "codeval":
                return list(v[1])
            if v is not None and v[0] == "callres":
                return list(v[1][0][1])
            self.unknown.append(("code-local", e["name"], line_of(e)))
            return [("?", e["name"])]
        if k == "Call":
            c = callee(e) or ""
            if c == "alloc::vec::Vec::new":
                return []
            if c.startswith(IRP + "::"):
                return self.op(e, env, mult)
        if k == "Block":
            env2 = dict(env)
            self.lets(e, env2, mult)
            if e.get("e") is not None:
                return self.code(e["e"], env2, mult)
            return []
        if k == "If":
            c = peel(e["c"])
            env_t = dict(env)
            lab = pp(c)[:40]
            if c.get("k") == "LetCond":
                for b, path in _pat_paths(c["pat"]):
                    env_t[b["hid"]] = ("ast", self.child(c["init"], env))
                lab = "some(" + self.child(c["init"], env) + ")"
            a = self.code(e["t"], env_t, mult)
            b = self.code(e["e"], env, mult) if e.get("e") else []
            return [("alt", [a, b], [lab, "else"])]
        if k == "Match":
            alts, labels = [], []
            for arm in e["arms"]:
                if diverges(arm["body"]):
                    continue
                env2 = dict(env)
                labels.append(self.bind_arm(arm, e, env2))
                alts.append(self.code(arm["body"], env2, mult))
            return [("alt", alts, labels)]
        if k == "Field" and e["name"] == "0":
            inner = peel(e["e"])
            if inner.get("k") == "MethodCall" and callee(inner) == CG + "expression":
                ch = self.child(inner["args"][0], env)
                return [("code", "expr", ch, ("result", ch, mult))]
        if k == "MethodCall":
            c = callee(e)
            m = e["m"]
            if c == CG + "expression_block":
                return [("code", "block", self.child(e["args"][1], env), self.val(e["args"][0], env, mult))]
            if c == CG + "statement":
                return [("code", "stmt", self.child(e["args"][0], env), None)]
            if c == CG + "definition":
                return [("code", "def", self.child(e["args"][1], env), self.val(e["args"][0], env, mult))]
            if c == CG + "compile":
                return [("code", "top", self.child(e["args"][0], env), None)]
            if m == "concat":
                r = peel(e["recv"])
                if r.get("k") == "Array":
                    out = []
                    for x in r["es"]:
                        out += self.code(x, env, mult)
                    return out
                return self.code(r, env, mult)
            if m in ("collect", "flatten", "into_iter", "clone", "to_vec"):
                return self.code(e["recv"], env, mult)
            if m == "map":
                clo = [a for a in e["args"] if a.get("k") == "Closure"]
                r = peel(e["recv"])
                if r.get("k") == "Struct" and r["path"].endswith("Range"):
                    endf = [f for f in r["fields"] if f["name"] == "end"]
                    over = self.child(peel(endf[0]["e"])["recv"], env) if endf and peel(endf[0]["e"]).get("k") == "MethodCall" else "?range"
                else:
                    over = self.child(r, env)
                if clo:
                    env2 = dict(env)
                    if clo[0]["params"]:
                        self.bind_elem(clo[0]["params"][0], over + "[*]", env2)
                    body = clo[0]["body"]
                    t = body.get("ty", "")
                    if is_code_ty(t):
                        inner = self.code(body, env2, mult + (over,))
                    else:
                        inner = self.op(body, env2, mult + (over,))
                    return [("rep", over, inner)]
            if m == "iter":
                return self.code(e["recv"], env, mult)
        self.unknown.append(("code", pp(e)[:60], line_of(e)))
        return [("?", pp(e)[:40])]

    def op(self, e, env, mult):
        """items for an expression of type IR"""
        e = peel(e)
        k = e.get("k")
        if k == "Call" and (callee(e) or "").startswith(IRP + "::"):
            name = last(callee(e))
            args = [self.val(a, env, mult) for a in e["args"]]
            return [("op", name, args, line_of(e))]
        if k == "Path" and e.get("res") == "Def" and norm_path(e.get("path", "")).startswith(IRP + "::"):
            return [("op", last(norm_path(e["path"])), [], line_of(e))]
        if k == "Path" and e.get("res") == "Local" and isinstance(env.get(e.get("hid")), tuple) and env[e["hid"]][0] == "opval":
            return list(env[e["hid"]][1])
        if k == "Match":
            alts, labels = [], []
            for arm in e["arms"]:
                if diverges(arm["body"]):
                    continue
                env2 = dict(env)
                labels.append(self.bind_arm(arm, e, env2))
                alts.append(self.op(arm["body"], env2, mult))
            return [("alt", alts, labels)]
        if k == "Block":
            env2 = dict(env)
            self.lets(e, env2, mult)
            if e.get("e") is not None:
                return self.op(e["e"], env2, mult)
        self.unknown.append(("op", pp(e)[:60], line_of(e)))
        return [("?", pp(e)[:40])]


def arm_templates(F, fnname, enum):
    """{label: dict(items=[..], result=value|None, arm=arm, sub=pattern text)} for the dispatch match of a codegen fn"""
    fn = F.fn(CG + fnname)
    ev = Ev(F, fn)
    out = []
    body = ev.body
    env0 = {}
    for i, prm in enumerate(fn["params"]):
        for b in pat_bindings(prm["pat"]):
            env0[b["hid"]] = ("param", b["name"])
    ms = [m for m in matches_on(body, enum)]
    if not ms:
        return ev, out
    m = ms[0]
    # lets before the match (e.g. `let ctx = ..`)
    for arm in m["arms"]:
        if diverges(arm["body"]):
            out.append(dict(label=_arm_label(arm), items=None, result=None, arm=arm, diverges=True))
            continue
        env = dict(env0)
        ev.bind_arm(arm, m, env)
        # bindings of AST children carry just their field name
        for b, path in _pat_paths(arm["pat"]):
            d = ".".join(el[2] for el in path if el[0] == "field" and not el[1].endswith("Option::Some"))
            env[b["hid"]] = ("ast", d)
        b = peel(arm["body"])
        t = b.get("ty", "")
        result = None
        if t.startswith("(") and is_code_ty(t):
            # (code, var)
            env2 = dict(env)
            if b.get("k") == "Block":
                ev.lets(b, env2, ())
                b2 = peel(b["e"])
            else:
                b2 = b
            if b2.get("k") == "Tup":
                items = ev.code(b2["es"][0], env2, ())
                result = ev.val(b2["es"][1], env2, ())
            else:
                items = [("?", pp(b2)[:40])]
        else:
            items = ev.code(b, env, ())
        out.append(dict(label=_arm_label(arm), items=items, result=result, arm=arm, diverges=False))
    return ev, out


def _arm_label(arm):
    from hir import ppat
    names = []
    for alt in pat_alternatives(arm["pat"]):
        v = pat_variant(alt)
        n = last(v) if v else "_"
        # nested constant sub-patterns (op: BinOp::And, collection: Collection::List, value: Some/None)
        extra = []
        for fname, sub in pat_fields(alt).items():
            for a2 in pat_alternatives(sub):
                v2 = pat_variant(a2)
                if v2 and not pat_bindings(a2) or (v2 and v2.endswith(("Option::Some", "Option::None"))):
                    extra.append(last(v2))
        names.append(n + ("/" + "+".join(extra) if extra else ""))
    return "|".join(names)


def fn_template(F, fnname):
    """template of a whole function body (definition, expression_block, compile's epilogue)"""
    fn = F.fn(CG + fnname)
    ev = Ev(F, fn)
    env = {}
    for prm in fn["params"]:
        for b in pat_bindings(prm["pat"]):
            env[b["hid"]] = ("param", b["name"])
    return ev, ev.code(ev.body, env, ())


def show_val(v):
    if v is None:
        return "-"
    k = v[0]
    if k == "fresh":
        return "%s#%d%s" % (v[1], v[2], "*" if v[3] else "")
    if k == "result":
        return "R(%s)" % v[1]
    if k == "resvar":
        return "V(%s)" % v[1]
    if k == "param":
        return "$" + v[1]
    if k == "list":
        return "[%s..]" % show_val(v[1])
    if k == "tuplelist":
        return "[(%s)..]" % ", ".join(show_val(x) for x in v[1])
    if k == "altval":
        return "alt(" + " | ".join(show_val(x) if not isinstance(x, list) else "code" for x in v[1]) + ")"
    if k in ("ast", "field", "str"):
        return "'" + str(v[1]) + "'"
    if k == "lit":
        return repr(v[1])
    return "?" + str(v[1:])


def show(items, ind=0):
    out = []
    I = "  " * ind
    for it in items:
        if it[0] == "op":
            out.append(I + "%s(%s)" % (it[1], ", ".join(show_val(a) for a in it[2])))
        elif it[0] == "code":
            out.append(I + "<%s %s%s>" % (it[1], it[2], " -> " + show_val(it[3]) if it[3] else ""))
        elif it[0] == "rep":
            out.append(I + "for each %s:" % it[1])
            out.append(show(it[2], ind + 1))
        elif it[0] == "alt":
            for lab, a in zip(it[2], it[1]):
                out.append(I + "| %s:" % lab)
                out.append(show(a, ind + 1))
        else:
            out.append(I + "?? %s" % (it[1:],))
    return "\n".join(x for x in out if x)
