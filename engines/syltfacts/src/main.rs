// syltfacts: a rustc_private driver that dumps a resolved, macro-expanded view of a crate
// (HIR bodies with resolved paths / method callees / types, ADT tables with attributes)
// as one JSON file per crate.  It takes no decisions: all rules live in /verif/rules.
//
// Usage (as RUSTC_WORKSPACE_WRAPPER): argv[1] is the real rustc path (dropped),
// env SYLTFACTS_OUT names the output directory.
#![feature(rustc_private)]
#![allow(clippy::all)]

extern crate rustc_ast;
extern crate rustc_driver;
extern crate rustc_hir;
extern crate rustc_interface;
extern crate rustc_middle;
extern crate rustc_span;

mod json;
use json::J;

use rustc_hir as hir;
use rustc_hir::def::{DefKind, Res};
use rustc_hir::def_id::{DefId, LocalDefId, LOCAL_CRATE};
use rustc_middle::ty::{self, TyCtxt, TypeckResults};
use rustc_span::Span;

struct Cb;

impl rustc_driver::Callbacks for Cb {
    fn after_analysis<'tcx>(
        &mut self,
        _c: &rustc_interface::interface::Compiler,
        tcx: TyCtxt<'tcx>,
    ) -> rustc_driver::Compilation {
        if let Ok(dir) = std::env::var("SYLTFACTS_OUT") {
            let out = dump_crate(tcx);
            let crate_name = tcx.crate_name(LOCAL_CRATE).to_string();
            let is_bin = tcx
                .crate_types()
                .iter()
                .any(|t| matches!(t, rustc_session_config::CrateType::Executable));
            let name = if is_bin { format!("{}-bin", crate_name) } else { crate_name };
            let path = std::path::Path::new(&dir).join(format!("{}.json", name));
            let mut s = String::new();
            out.write(&mut s);
            std::fs::write(&path, s).expect("syltfacts: cannot write fact file");
        }
        rustc_driver::Compilation::Continue
    }
}

use rustc_middle::ty::print::with_no_trimmed_paths;
mod rustc_session_config {
    pub use rustc_session::config::CrateType;
}
extern crate rustc_session;

fn main() {
    let mut args: Vec<String> = std::env::args().collect();
    // RUSTC_WORKSPACE_WRAPPER passes the real rustc as argv[1].
    if args.len() > 1 && (args[1].ends_with("rustc") || args[1].contains("rustc")) && !args[1].starts_with('-') {
        args.remove(1);
    }
    rustc_driver::run_compiler(&args, &mut Cb);
}

struct Cx<'tcx> {
    tcx: TyCtxt<'tcx>,
    krate: String,
}

fn dump_crate<'tcx>(tcx: TyCtxt<'tcx>) -> J {
    let cx = Cx { tcx, krate: tcx.crate_name(LOCAL_CRATE).to_string() };
    let mut fns = Vec::new();
    for owner in tcx.hir_body_owners() {
        let kind = tcx.def_kind(owner);
        match kind {
            DefKind::Fn | DefKind::AssocFn | DefKind::Const { .. } | DefKind::Static { .. } | DefKind::AssocConst { .. } => {}
            _ => continue, // closures are inlined into their parent; anon consts skipped
        }
        fns.push(cx.dump_fn(owner, kind));
    }
    let mut adts = Vec::new();
    let mut impls = Vec::new();
    for id in tcx.hir_crate_items(()).definitions() {
        match tcx.def_kind(id) {
            DefKind::Enum | DefKind::Struct => adts.push(cx.dump_adt(id)),
            DefKind::Impl { .. } => impls.push(cx.dump_impl(id)),
            _ => {}
        }
    }
    J::obj(vec![
        ("crate", J::s(&cx.krate)),
        ("fns", J::Arr(fns)),
        ("adts", J::Arr(adts)),
        ("impls", J::Arr(impls)),
    ])
}

impl<'tcx> Cx<'tcx> {
    /// Canonical path: crate name + definition path, with impl blocks named after their self type
    /// (`krate::module::Type::method`, `krate::module::<Type as Trait>::method`), independent of
    /// re-exports and of the crate the reference is seen from.
    fn path_of(&self, did: DefId) -> String {
        use rustc_hir::definitions::DefPathData as D;
        let tcx = self.tcx;
        let mut segs: Vec<String> = Vec::new();
        let mut cur = did;
        loop {
            let key = tcx.def_key(cur);
            match key.disambiguated_data.data {
                D::CrateRoot => break,
                D::Impl => {
                    let st = tcx.type_of(cur).instantiate_identity().skip_norm_wip();
                    let sname = match st.kind() {
                        ty::Adt(adt, _) => tcx.item_name(adt.did()).to_string(),
                        _ => with_no_trimmed_paths!(st.to_string()),
                    };
                    match tcx.impl_opt_trait_ref(cur) {
                        Some(tr) => {
                            let tr = tr.instantiate_identity().skip_norm_wip();
                            segs.push(format!("[{} as {}]", sname, tcx.item_name(tr.def_id)));
                        }
                        None => segs.push(sname),
                    }
                }
                D::Ctor => {}
                D::Closure => segs.push(format!("{{closure#{}}}", key.disambiguated_data.disambiguator)),
                other => match other.get_opt_name() {
                    Some(n) => segs.push(n.to_string()),
                    None => segs.push(format!("{{{:?}}}", other).replace(' ', "")),
                },
            }
            match key.parent {
                Some(p) => cur = DefId { krate: cur.krate, index: p },
                None => break,
            }
        }
        segs.push(tcx.crate_name(did.krate).to_string());
        segs.reverse();
        segs.join("::")
    }

    fn span(&self, sp: Span) -> String {
        let sm = self.tcx.sess.source_map();
        let cs = sp.source_callsite();
        let loc = sm.lookup_char_pos(cs.lo());
        let name = match &loc.file.name {
            rustc_span::FileName::Real(r) => match r.local_path() {
                Some(p) => p.display().to_string(),
                None => format!("{:?}", r),
            },
            other => format!("{:?}", other),
        };
        format!("{}:{}:{}", name, loc.line, loc.col.0 + 1)
    }

    fn raw_span(&self, sp: Span) -> String {
        let sm = self.tcx.sess.source_map();
        let loc = sm.lookup_char_pos(sp.lo());
        let name = match &loc.file.name {
            rustc_span::FileName::Real(r) => match r.local_path() {
                Some(p) => p.display().to_string(),
                None => format!("{:?}", r),
            },
            other => format!("{:?}", other),
        };
        format!("{}:{}:{}", name, loc.line, loc.col.0 + 1)
    }

    fn macros(&self, sp: Span) -> Vec<J> {
        let mut v = Vec::new();
        if sp.from_expansion() {
            for data in sp.macro_backtrace() {
                match data.kind {
                    rustc_span::ExpnKind::Macro(kind, name) => match kind {
                        rustc_span::MacroKind::Derive => v.push(J::s(&format!("derive:{}", name))),
                        rustc_span::MacroKind::Attr => v.push(J::s(&format!("attr:{}", name))),
                        _ => v.push(J::s(&name.to_string())),
                    },
                    rustc_span::ExpnKind::Desugaring(k) => v.push(J::s(&format!("desugar:{:?}", k))),
                    rustc_span::ExpnKind::AstPass(k) => v.push(J::s(&format!("astpass:{:?}", k))),
                    rustc_span::ExpnKind::Root => {}
                }
            }
        }
        v
    }

    fn ty_str(&self, t: ty::Ty<'tcx>) -> String {
        // canonical type paths: crate-qualified, real definition paths instead of re-exports
        rustc_middle::ty::print::with_resolve_crate_name!(rustc_middle::ty::print::with_no_visible_paths!(
            with_no_trimmed_paths!(t.to_string())
        ))
    }

    fn dump_adt(&self, id: LocalDefId) -> J {
        let tcx = self.tcx;
        let adt = tcx.adt_def(id.to_def_id());
        let mut variants = Vec::new();
        for v in adt.variants().iter() {
            let mut fields = Vec::new();
            for f in v.fields.iter() {
                let t = tcx.type_of(f.did).instantiate_identity().skip_norm_wip();
                fields.push(J::obj(vec![
                    ("name", J::s(&f.name.to_string())),
                    ("ty", J::s(&self.ty_str(t))),
                ]));
            }
            let mut attrs = Vec::new();
            if let Some(l) = v.def_id.as_local() {
                let hid = tcx.local_def_id_to_hir_id(l);
                for a in tcx.hir_attrs(hid) {
                    let sp = a.span();
                    if let Ok(snip) = tcx.sess.source_map().span_to_snippet(sp) {
                        attrs.push(J::s(&snip));
                    }
                }
            }
            let ctor = match v.ctor_kind() {
                Some(hir::def::CtorKind::Fn) => "tuple",
                Some(hir::def::CtorKind::Const) => "unit",
                None => "struct",
            };
            variants.push(J::obj(vec![
                ("name", J::s(&v.name.to_string())),
                ("path", J::s(&self.path_of(v.def_id))),
                ("ctor", J::s(ctor)),
                ("fields", J::Arr(fields)),
                ("attrs", J::Arr(attrs)),
            ]));
        }
        let mut attrs = Vec::new();
        let hid = tcx.local_def_id_to_hir_id(id);
        for a in tcx.hir_attrs(hid) {
            if let Ok(snip) = tcx.sess.source_map().span_to_snippet(a.span()) {
                attrs.push(J::s(&snip));
            }
        }
        // full source text of the item (derive helper attributes such as logos' #[token]/#[regex] do not
        // survive into HIR attributes; rules read them from here)
        let item_span = tcx.hir_span_with_body(hid);
        let src = tcx.sess.source_map().span_to_snippet(item_span).unwrap_or_default();
        J::obj(vec![
            ("path", J::s(&self.path_of(id.to_def_id()))),
            ("src", J::s(if src.len() < 20000 { &src } else { "" })),
            ("kind", J::s(if adt.is_enum() { "enum" } else { "struct" })),
            ("sp", J::s(&self.raw_span(tcx.def_span(id)))),
            ("attrs", J::Arr(attrs)),
            ("variants", J::Arr(variants)),
        ])
    }

    fn dump_impl(&self, id: LocalDefId) -> J {
        let tcx = self.tcx;
        let self_ty = tcx.type_of(id).instantiate_identity().skip_norm_wip();
        let tr = tcx.impl_opt_trait_ref(id.to_def_id()).map(|t| {
            let t = t.instantiate_identity().skip_norm_wip();
            self.path_of(t.def_id)
        });
        let mut items = Vec::new();
        for it in tcx.associated_items(id.to_def_id()).in_definition_order() {
            items.push(J::s(&self.path_of(it.def_id)));
        }
        J::obj(vec![
            ("self_ty", J::s(&self.ty_str(self_ty))),
            ("trait", tr.map(|s| J::s(&s)).unwrap_or(J::Null)),
            ("items", J::Arr(items)),
            ("sp", J::s(&self.raw_span(tcx.def_span(id)))),
            ("derived", J::Bool(tcx.def_span(id).from_expansion())),
        ])
    }

    fn dump_fn(&self, owner: LocalDefId, kind: DefKind) -> J {
        let tcx = self.tcx;
        let body = tcx.hir_body_owned_by(owner);
        let tr = tcx.typeck(owner);
        let w = W { cx: self, tr };
        let mut params = Vec::new();
        for p in body.params {
            params.push(J::obj(vec![
                ("pat", w.pat(p.pat)),
                ("ty", J::s(&self.ty_str(tr.pat_ty(p.pat)))),
            ]));
        }
        let mut fields = vec![
            ("def", J::s(&self.path_of(owner.to_def_id()))),
            ("kind", J::s(&format!("{:?}", kind))),
            ("sp", J::s(&self.raw_span(tcx.def_span(owner)))),
            ("from_macro", J::Arr(self.macros(tcx.def_span(owner)))),
            ("params", J::Arr(params)),
        ];
        if matches!(kind, DefKind::Fn | DefKind::AssocFn) {
            let sig = tcx.fn_sig(owner).instantiate_identity().skip_norm_wip().skip_binder();
            fields.push(("ret", J::s(&self.ty_str(sig.output()))));
            fields.push(("vis", J::s(&format!("{:?}", tcx.visibility(owner)))));
        }
        if matches!(kind, DefKind::Const { .. } | DefKind::Static { .. } | DefKind::AssocConst { .. }) {
            let t = tcx.type_of(owner).instantiate_identity().skip_norm_wip();
            fields.push(("ty", J::s(&self.ty_str(t))));
        }
        let derived = tcx.def_span(owner).from_expansion()
            && tcx.def_span(owner).macro_backtrace().any(|d| match d.kind {
                rustc_span::ExpnKind::Macro(rustc_span::MacroKind::Derive, name) => matches!(
                    name.as_str(),
                    "Debug" | "Clone" | "Copy" | "PartialEq" | "Eq" | "Hash" | "PartialOrd" | "Ord" | "Default"
                        | "Logos" | "Options"
                ),
                _ => false,
            });
        if derived {
            // bodies written by #[derive] are not sylt's own code; keep the signature only
            fields.push(("body", J::Null));
        } else {
            fields.push(("body", w.expr(body.value)));
        }
        J::obj(fields)
    }
}

struct W<'a, 'tcx> {
    cx: &'a Cx<'tcx>,
    tr: &'tcx TypeckResults<'tcx>,
}

impl<'a, 'tcx> W<'a, 'tcx> {
    fn tcx(&self) -> TyCtxt<'tcx> {
        self.cx.tcx
    }

    fn res(&self, res: Res) -> Vec<(&'static str, J)> {
        match res {
            Res::Local(hid) => vec![
                ("res", J::s("Local")),
                ("name", J::s(&self.tcx().hir_name(hid).to_string())),
                ("hid", J::s(&format!("{}.{}", hid.owner.def_id.local_def_index.as_u32(), hid.local_id.as_u32()))),
            ],
            Res::Def(kind, did) => {
                let (path, dk) = match kind {
                    DefKind::Ctor(of, _) => {
                        let parent = self.tcx().parent(did);
                        (self.cx.path_of(parent), format!("Ctor:{:?}", of))
                    }
                    k => (self.cx.path_of(did), format!("{:?}", k)),
                };
                vec![("res", J::s("Def")), ("path", J::s(&path)), ("dk", J::s(&dk))]
            }
            Res::SelfCtor(did) | Res::SelfTyAlias { alias_to: did, .. } => {
                vec![("res", J::s("SelfTy")), ("path", J::s(&self.cx.path_of(did)))]
            }
            other => vec![("res", J::s(&format!("{:?}", other)))],
        }
    }

    fn qpath_in_expr(&self, q: &hir::QPath<'tcx>, hid: hir::HirId) -> Vec<(&'static str, J)> {
        self.res(self.tr.qpath_res(q, hid))
    }

    fn variant_of_struct_path(&self, q: &hir::QPath<'tcx>, hid: hir::HirId, t: ty::Ty<'tcx>) -> String {
        match self.tr.qpath_res(q, hid) {
            Res::Def(DefKind::Ctor(..), did) => self.cx.path_of(self.tcx().parent(did)),
            Res::Def(DefKind::Variant | DefKind::Struct | DefKind::Union, did) => self.cx.path_of(did),
            _ => {
                // `Self { .. }`, type aliases: fall back to the ADT of the type
                match t.kind() {
                    ty::Adt(adt, _) => self.cx.path_of(adt.did()),
                    _ => format!("?{:?}", self.tr.qpath_res(q, hid)),
                }
            }
        }
    }

    fn lit(&self, l: &hir::Lit, negated: bool) -> J {
        use rustc_ast::LitKind as K;
        let (lk, v) = match &l.node {
            K::Str(s, _) => ("str", J::s(s.as_str())),
            K::ByteStr(b, _) => ("bytes", J::Arr(b.as_byte_str().iter().map(|x| J::Num(*x as i128)).collect())),
            K::CStr(b, _) => ("cstr", J::Arr(b.as_byte_str().iter().map(|x| J::Num(*x as i128)).collect())),
            K::Byte(b) => ("byte", J::Num(*b as i128)),
            K::Char(c) => ("char", J::s(&c.to_string())),
            K::Int(n, _) => ("int", J::Num(if negated { -(n.get() as i128) } else { n.get() as i128 })),
            K::Float(s, _) => ("float", J::s(s.as_str())),
            K::Bool(b) => ("bool", J::Bool(*b)),
            K::Err(_) => ("err", J::Null),
        };
        J::obj(vec![("k", J::s("Lit")), ("lk", J::s(lk)), ("v", v)])
    }

    fn pat(&self, p: &hir::Pat<'tcx>) -> J {
        use hir::PatKind as P;
        let mut f: Vec<(&'static str, J)> = Vec::new();
        match &p.kind {
            P::Wild => f.push(("k", J::s("Wild"))),
            P::Missing => f.push(("k", J::s("Missing"))),
            P::Never => f.push(("k", J::s("Never"))),
            P::Binding(mode, hid, ident, sub) => {
                f.push(("k", J::s("Binding")));
                f.push(("name", J::s(ident.name.as_str())));
                f.push(("hid", J::s(&format!("{}.{}", hid.owner.def_id.local_def_index.as_u32(), hid.local_id.as_u32()))));
                f.push(("mode", J::s(&format!("{:?}", mode))));
                f.push(("ty", J::s(&self.cx.ty_str(self.tr.pat_ty(p)))));
                if let Some(s) = sub {
                    f.push(("sub", self.pat(s)));
                }
            }
            P::Struct(q, fields, rest) => {
                f.push(("k", J::s("Struct")));
                f.push(("path", J::s(&self.variant_of_struct_path(q, p.hir_id, self.tr.pat_ty(p)))));
                let mut fs = Vec::new();
                for fp in fields.iter() {
                    fs.push(J::obj(vec![
                        ("name", J::s(fp.ident.name.as_str())),
                        ("pat", self.pat(fp.pat)),
                    ]));
                }
                f.push(("fields", J::Arr(fs)));
                f.push(("rest", J::Bool(rest.is_some())));
            }
            P::TupleStruct(q, pats, dd) => {
                f.push(("k", J::s("TupleStruct")));
                f.push(("path", J::s(&self.variant_of_struct_path(q, p.hir_id, self.tr.pat_ty(p)))));
                f.push(("pats", J::Arr(pats.iter().map(|x| self.pat(x)).collect())));
                f.push(("dd", dd.as_opt_usize().map(|n| J::Num(n as i128)).unwrap_or(J::Null)));
            }
            P::Or(pats) => {
                f.push(("k", J::s("Or")));
                f.push(("pats", J::Arr(pats.iter().map(|x| self.pat(x)).collect())));
            }
            P::Tuple(pats, dd) => {
                f.push(("k", J::s("Tuple")));
                f.push(("pats", J::Arr(pats.iter().map(|x| self.pat(x)).collect())));
                f.push(("dd", dd.as_opt_usize().map(|n| J::Num(n as i128)).unwrap_or(J::Null)));
            }
            P::Box(x) => {
                f.push(("k", J::s("Box")));
                f.push(("pat", self.pat(x)));
            }
            P::Deref(x) => {
                f.push(("k", J::s("Deref")));
                f.push(("pat", self.pat(x)));
            }
            P::Ref(x, ..) => {
                f.push(("k", J::s("Ref")));
                f.push(("pat", self.pat(x)));
            }
            P::Expr(pe) => match &pe.kind {
                hir::PatExprKind::Lit { lit, negated } => {
                    f.push(("k", J::s("LitPat")));
                    f.push(("lit", self.lit(lit, *negated)));
                }
                hir::PatExprKind::Path(q) => {
                    f.push(("k", J::s("PathPat")));
                    for kv in self.res(self.tr.qpath_res(q, pe.hir_id)) {
                        f.push(kv);
                    }
                }
                #[allow(unreachable_patterns)]
                _ => f.push(("k", J::s("OtherPatExpr"))),
            },
            P::Guard(x, g) => {
                f.push(("k", J::s("GuardPat")));
                f.push(("pat", self.pat(x)));
                f.push(("guard", self.expr(g)));
            }
            P::Range(..) => f.push(("k", J::s("Range"))),
            P::Slice(a, m, b) => {
                f.push(("k", J::s("Slice")));
                f.push(("before", J::Arr(a.iter().map(|x| self.pat(x)).collect())));
                f.push(("mid", m.map(|x| self.pat(x)).unwrap_or(J::Null)));
                f.push(("after", J::Arr(b.iter().map(|x| self.pat(x)).collect())));
            }
            P::Err(_) => f.push(("k", J::s("Err"))),
        }
        f.push(("sp", J::s(&self.cx.span(p.span))));
        J::obj(f)
    }

    fn block(&self, b: &hir::Block<'tcx>) -> J {
        let mut stmts = Vec::new();
        for s in b.stmts {
            match &s.kind {
                hir::StmtKind::Let(l) => {
                    let mut f = vec![("k", J::s("Let")), ("pat", self.pat(l.pat))];
                    f.push(("init", l.init.map(|e| self.expr(e)).unwrap_or(J::Null)));
                    f.push(("els", l.els.map(|b| self.block(b)).unwrap_or(J::Null)));
                    f.push(("sp", J::s(&self.cx.span(s.span))));
                    stmts.push(J::obj(f));
                }
                hir::StmtKind::Expr(e) => stmts.push(J::obj(vec![("k", J::s("ExprStmt")), ("e", self.expr(e))])),
                hir::StmtKind::Semi(e) => stmts.push(J::obj(vec![("k", J::s("Semi")), ("e", self.expr(e))])),
                hir::StmtKind::Item(_) => stmts.push(J::obj(vec![("k", J::s("Item"))])),
            }
        }
        let user_unsafe = matches!(b.rules, hir::BlockCheckMode::UnsafeBlock(hir::UnsafeSource::UserProvided))
            && !b.span.from_expansion();
        let mut f = vec![
            ("k", J::s("Block")),
            ("stmts", J::Arr(stmts)),
            ("e", b.expr.map(|e| self.expr(e)).unwrap_or(J::Null)),
            ("sp", J::s(&self.cx.span(b.span))),
        ];
        if user_unsafe {
            f.push(("unsafe", J::Bool(true)));
        }
        J::obj(f)
    }

    fn is_lang_call(&self, e: &hir::Expr<'tcx>, item: hir::LangItem) -> Option<&'tcx [hir::Expr<'tcx>]> {
        if let hir::ExprKind::Call(f, args) = &e.kind {
            if let hir::ExprKind::Path(q) = &f.kind {
                if let Res::Def(_, did) = self.tr.qpath_res(q, f.hir_id) {
                    if self.tcx().lang_items().get(item) == Some(did) {
                        return Some(args);
                    }
                }
            }
        }
        None
    }

    fn try_for_loop(&self, scrut: &hir::Expr<'tcx>, arms: &[hir::Arm<'tcx>]) -> Option<J> {
        // match IntoIterator::into_iter(<head>) { mut iter => loop { match Iterator::next(&mut iter)
        //   { None => break, Some(<pat>) => <body> } } }
        let head = self.is_lang_call(scrut, hir::LangItem::IntoIterIntoIter)?;
        if arms.len() != 1 {
            return None;
        }
        let hir::ExprKind::Loop(blk, _, hir::LoopSource::ForLoop, _) = &arms[0].body.kind else { return None };
        let inner = if blk.stmts.len() == 1 {
            match &blk.stmts[0].kind {
                hir::StmtKind::Expr(e) | hir::StmtKind::Semi(e) => *e,
                _ => return None,
            }
        } else if let (0, Some(e)) = (blk.stmts.len(), blk.expr) {
            e
        } else {
            return None;
        };
        let hir::ExprKind::Match(_, inner_arms, hir::MatchSource::ForLoopDesugar) = &inner.kind else { return None };
        if inner_arms.len() != 2 {
            return None;
        }
        let some = &inner_arms[1];
        let inner_pat: &hir::Pat<'tcx> = match &some.pat.kind {
            hir::PatKind::TupleStruct(_, pats, _) if pats.len() == 1 => &pats[0],
            hir::PatKind::Struct(_, fields, _) if fields.len() == 1 => fields[0].pat,
            _ => return None,
        };
        Some(J::obj(vec![
            ("k", J::s("ForLoop")),
            ("pat", self.pat(inner_pat)),
            ("iter", self.expr(&head[0])),
            ("iter_ty", J::s(&self.cx.ty_str(self.tr.expr_ty(&head[0])))),
            ("body", self.expr(some.body)),
        ]))
    }

    fn expr(&self, e: &hir::Expr<'tcx>) -> J {
        use hir::ExprKind as E;
        let mut f: Vec<(&'static str, J)> = Vec::new();
        let mut with_ty = true;
        match &e.kind {
            E::DropTemps(x) => return self.expr(x),
            E::Use(x, _) => return self.expr(x),
            E::Lit(l) => {
                return self.lit(l, false);
            }
            E::Path(q) => {
                f.push(("k", J::s("Path")));
                for kv in self.qpath_in_expr(q, e.hir_id) {
                    f.push(kv);
                }
                let args = self.tr.node_args(e.hir_id);
                if !args.is_empty() {
                    f.push(("gargs", J::Arr(args.iter().map(|a| J::s(&rustc_middle::ty::print::with_resolve_crate_name!(rustc_middle::ty::print::with_no_visible_paths!(with_no_trimmed_paths!(a.to_string()))))).collect())));
                }
            }
            E::Call(func, args) => {
                f.push(("k", J::s("Call")));
                if let E::Path(q) = &func.kind {
                    if let Res::Def(kind, did) = self.tr.qpath_res(q, func.hir_id) {
                        let path = match kind {
                            DefKind::Ctor(..) => self.cx.path_of(self.tcx().parent(did)),
                            _ => self.cx.path_of(did),
                        };
                        f.push(("callee", J::s(&path)));
                        f.push(("ctor", J::Bool(matches!(kind, DefKind::Ctor(..)))));
                    }
                }
                f.push(("f", self.expr(func)));
                f.push(("args", J::Arr(args.iter().map(|a| self.expr(a)).collect())));
            }
            E::MethodCall(seg, recv, args, _) => {
                f.push(("k", J::s("MethodCall")));
                f.push(("m", J::s(seg.ident.name.as_str())));
                if let Some(did) = self.tr.type_dependent_def_id(e.hir_id) {
                    f.push(("callee", J::s(&self.cx.path_of(did))));
                }
                let ga = self.tr.node_args(e.hir_id);
                if !ga.is_empty() {
                    f.push(("gargs", J::Arr(ga.iter().map(|a| J::s(&rustc_middle::ty::print::with_resolve_crate_name!(rustc_middle::ty::print::with_no_visible_paths!(with_no_trimmed_paths!(a.to_string()))))).collect())));
                }
                f.push(("recv_ty", J::s(&self.cx.ty_str(self.tr.expr_ty_adjusted(recv)))));
                f.push(("recv", self.expr(recv)));
                f.push(("args", J::Arr(args.iter().map(|a| self.expr(a)).collect())));
            }
            E::Tup(xs) => {
                f.push(("k", J::s("Tup")));
                f.push(("es", J::Arr(xs.iter().map(|a| self.expr(a)).collect())));
            }
            E::Array(xs) => {
                f.push(("k", J::s("Array")));
                f.push(("es", J::Arr(xs.iter().map(|a| self.expr(a)).collect())));
            }
            E::Repeat(x, _) => {
                f.push(("k", J::s("Repeat")));
                f.push(("e", self.expr(x)));
            }
            E::Binary(op, l, r) => {
                f.push(("k", J::s("Binary")));
                f.push(("op", J::s(&format!("{:?}", op.node))));
                f.push(("l", self.expr(l)));
                f.push(("r", self.expr(r)));
            }
            E::Unary(op, x) => {
                f.push(("k", J::s("Unary")));
                f.push(("op", J::s(&format!("{:?}", op))));
                f.push(("e", self.expr(x)));
            }
            E::Cast(x, _) => {
                f.push(("k", J::s("Cast")));
                f.push(("e", self.expr(x)));
            }
            E::Type(x, _) => {
                f.push(("k", J::s("TypeAscr")));
                f.push(("e", self.expr(x)));
            }
            E::Let(l) => {
                f.push(("k", J::s("LetCond")));
                f.push(("pat", self.pat(l.pat)));
                f.push(("init", self.expr(l.init)));
            }
            E::If(c, t, el) => {
                f.push(("k", J::s("If")));
                f.push(("c", self.expr(c)));
                f.push(("t", self.expr(t)));
                f.push(("e", el.map(|x| self.expr(x)).unwrap_or(J::Null)));
            }
            E::Loop(blk, label, src, _) => {
                // while desugars to loop { if cond { body } else { break } }
                if matches!(src, hir::LoopSource::While) {
                    if let (0, Some(x)) = (blk.stmts.len(), blk.expr) {
                        if let E::If(c, t, Some(_)) = &x.kind {
                            f.push(("k", J::s("While")));
                            f.push(("cond", self.expr(c)));
                            f.push(("body", self.expr(t)));
                            f.push(("sp", J::s(&self.cx.span(e.span))));
                            return J::obj(f);
                        }
                    }
                }
                f.push(("k", J::s("Loop")));
                f.push(("src", J::s(&format!("{:?}", src))));
                f.push(("label", label.map(|l| J::s(l.ident.name.as_str())).unwrap_or(J::Null)));
                f.push(("body", self.block(blk)));
            }
            E::Match(scrut, arms, src) => {
                match src {
                    hir::MatchSource::TryDesugar(_) => {
                        if let Some(args) = self.is_lang_call(scrut, hir::LangItem::TryTraitBranch) {
                            f.push(("k", J::s("Try")));
                            f.push(("e", self.expr(&args[0])));
                            f.push(("sp", J::s(&self.cx.span(e.span))));
                            f.push(("ty", J::s(&self.cx.ty_str(self.tr.expr_ty(e)))));
                            let m = self.cx.macros(e.span);
                            if !m.is_empty() {
                                f.push(("mac", J::Arr(m)));
                            }
                            return J::obj(f);
                        }
                    }
                    hir::MatchSource::ForLoopDesugar => {
                        if let Some(mut j) = self.try_for_loop(scrut, arms) {
                            j.push("sp", J::s(&self.cx.span(e.span)));
                            return j;
                        }
                    }
                    _ => {}
                }
                f.push(("k", J::s("Match")));
                f.push(("src", J::s(&format!("{:?}", src).split('(').next().unwrap_or("").to_string())));
                f.push(("scrut", self.expr(scrut)));
                f.push(("scrut_ty", J::s(&self.cx.ty_str(self.tr.expr_ty(scrut)))));
                let mut av = Vec::new();
                for a in arms.iter() {
                    av.push(J::obj(vec![
                        ("pat", self.pat(a.pat)),
                        ("guard", a.guard.map(|g| self.expr(g)).unwrap_or(J::Null)),
                        ("body", self.expr(a.body)),
                        ("sp", J::s(&self.cx.span(a.span))),
                    ]));
                }
                f.push(("arms", J::Arr(av)));
            }
            E::Closure(c) => {
                let body = self.tcx().hir_body(c.body);
                f.push(("k", J::s("Closure")));
                f.push(("params", J::Arr(body.params.iter().map(|p| self.pat(p.pat)).collect())));
                f.push(("body", self.expr(body.value)));
            }
            E::Block(b, label) => {
                let mut j = self.block(b);
                if let Some(l) = label {
                    j.push("label", J::s(l.ident.name.as_str()));
                }
                let m = self.cx.macros(e.span);
                if !m.is_empty() {
                    j.push("mac", J::Arr(m));
                }
                j.push("ty", J::s(&self.cx.ty_str(self.tr.expr_ty(e))));
                return j;
            }
            E::Assign(l, r, _) => {
                f.push(("k", J::s("Assign")));
                f.push(("l", self.expr(l)));
                f.push(("r", self.expr(r)));
            }
            E::AssignOp(op, l, r) => {
                f.push(("k", J::s("AssignOp")));
                f.push(("op", J::s(&format!("{:?}", op.node))));
                f.push(("l", self.expr(l)));
                f.push(("r", self.expr(r)));
            }
            E::Field(x, ident) => {
                f.push(("k", J::s("Field")));
                f.push(("name", J::s(ident.name.as_str())));
                f.push(("e", self.expr(x)));
                f.push(("base_ty", J::s(&self.cx.ty_str(self.tr.expr_ty_adjusted(x)))));
            }
            E::Index(x, i, _) => {
                f.push(("k", J::s("Index")));
                f.push(("e", self.expr(x)));
                f.push(("i", self.expr(i)));
                f.push(("base_ty", J::s(&self.cx.ty_str(self.tr.expr_ty_adjusted(x)))));
                if let Some(did) = self.tr.type_dependent_def_id(e.hir_id) {
                    f.push(("callee", J::s(&self.cx.path_of(did))));
                }
            }
            E::AddrOf(_, m, x) => {
                f.push(("k", J::s("AddrOf")));
                f.push(("mut", J::Bool(m.is_mut())));
                f.push(("e", self.expr(x)));
            }
            E::Break(dest, x) => {
                f.push(("k", J::s("Break")));
                f.push(("label", dest.label.map(|l| J::s(l.ident.name.as_str())).unwrap_or(J::Null)));
                f.push(("e", x.map(|x| self.expr(x)).unwrap_or(J::Null)));
                with_ty = false;
            }
            E::Continue(dest) => {
                f.push(("k", J::s("Continue")));
                f.push(("label", dest.label.map(|l| J::s(l.ident.name.as_str())).unwrap_or(J::Null)));
                with_ty = false;
            }
            E::Ret(x) => {
                f.push(("k", J::s("Ret")));
                f.push(("e", x.map(|x| self.expr(x)).unwrap_or(J::Null)));
                with_ty = false;
            }
            E::Struct(q, fields, tail) => {
                f.push(("k", J::s("Struct")));
                f.push(("path", J::s(&self.variant_of_struct_path(q, e.hir_id, self.tr.expr_ty(e)))));
                let mut fs = Vec::new();
                for fe in fields.iter() {
                    fs.push(J::obj(vec![
                        ("name", J::s(fe.ident.name.as_str())),
                        ("e", self.expr(fe.expr)),
                        ("shorthand", J::Bool(fe.is_shorthand)),
                    ]));
                }
                f.push(("fields", J::Arr(fs)));
                match tail {
                    hir::StructTailExpr::Base(b) => f.push(("base", self.expr(b))),
                    _ => f.push(("base", J::Null)),
                }
            }
            other => {
                f.push(("k", J::s("Other")));
                let d = format!("{:?}", other);
                f.push(("dbg", J::s(d.split(|c: char| !c.is_alphanumeric()).next().unwrap_or(""))));
            }
        }
        f.push(("sp", J::s(&self.cx.span(e.span))));
        if with_ty {
            f.push(("ty", J::s(&self.cx.ty_str(self.tr.expr_ty(e)))));
        }
        let m = self.cx.macros(e.span);
        if !m.is_empty() {
            f.push(("mac", J::Arr(m)));
        }
        J::obj(f)
    }
}
