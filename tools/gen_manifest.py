#!/usr/bin/env python3
"""Regenerates /verif/MANIFEST.json from the rule modules present in /verif/rules (each cNN.py may
define MANIFEST = dict(text=..., note=..., technique=..., design_ref=...))."""
import importlib
import json
import os
import sys

HERE = os.path.dirname(os.path.dirname(os.path.abspath(__file__)))
sys.path.insert(0, os.path.join(HERE, "rules"))

props = [json.loads(l) for l in open(os.path.join(HERE, "properties.jsonl"))]
checks = []
na = []
NA_REASONS = {}
na_file = os.path.join(HERE, "tools", "not_applicable.json")
if os.path.exists(na_file):
    NA_REASONS = json.load(open(na_file))

for p in props:
    pid = p["id"]
    modname = pid.lower()
    path = os.path.join(HERE, "rules", modname + ".py")
    if not os.path.exists(path) or pid in NA_REASONS:
        na.append({"property_id": pid, "reason": NA_REASONS.get(pid, "no static check built for this property yet (work in progress; see DESIGN.md §4)")})
        continue
    mod = importlib.import_module(modname)
    m = getattr(mod, "MANIFEST", {})
    checks.append({
        "property_id": pid,
        "quick_cmd": "./check %s --tier quick" % pid,
        "thorough_cmd": "./check %s --tier thorough" % pid,
        "evidence_file": "evidence/%s.json" % pid,
        "replay_cmd_template": "cat {path}",
        "engine": "syltfacts+rules",
        "level_claimed": {
            "category": "other",
            "text": m.get("text", getattr(mod, "EXPLANATION", "")),
            "design_ref": m.get("design_ref", "DESIGN.md §4 " + pid),
        },
        "level_note": m.get("note", "Trusted: rustc's name/type resolution (HIR + typeck of nightly 1.97), the reviewed "
                                    "instance tables in rules/%s.py. Decides structural necessary conditions of the "
                                    "property on the compiler's source; does not execute sylt or emitted Lua." % modname),
        "technique": m.get("technique", "custom static analysis over resolved HIR (rustc_private driver) + rule tables"),
    })

manifest = {
    "version": 1,
    "setup_cmd": "./setup.sh",
    "hooks": {
        "guard": "sylt_verif",
        "enable": "none: the analysis reads /repo's sources through a rustc driver; nothing in /repo is instrumented",
        "baseline_off_cmd": "/verif/tools/baseline.sh",
        "source_commits": [],
        "add_only": True,
    },
    "engines": [
        {
            "name": "syltfacts",
            "path": "engines/syltfacts",
            "serves_properties": [c["property_id"] for c in checks],
            "kind_free_text": "rustc_private driver (nightly) injected with RUSTC_WORKSPACE_WRAPPER under cargo check on a "
                              "snapshot of /repo's working tree: dumps resolved HIR (paths, method callees, types, macro "
                              "backtraces, decoded format strings), ADT tables and attributes as JSON",
        },
        {
            "name": "rules",
            "path": "rules",
            "serves_properties": [c["property_id"] for c in checks],
            "kind_free_text": "Python rule evaluators over the facts (VISIT, SCOPE, DISCHARGE, CTX, ACCEPT, PIPE, IRP, HASH, "
                              "CONTRACT ...), a Lua 5.1 parser for preamble.lua and a reader for std/*.sy declarations",
        },
    ],
    "checks": checks,
    "not_applicable": na,
    "notes": "Technique family: static analysis of sylt's own source. Every claim is clause-level (level 'other'): each "
             "check decides the structural necessary conditions listed in its level text and names what it does not decide. "
             "Genuine defects found are repaired by `fix:` commits in /repo or listed in known_findings.json.",
}
with open(os.path.join(HERE, "MANIFEST.json"), "w") as fh:
    json.dump(manifest, fh, indent=1)
print("checks:", [c["property_id"] for c in checks])
print("not_applicable:", [n["property_id"] for n in na])
