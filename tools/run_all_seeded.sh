#!/bin/bash
# Regression over every seeded breaking change: each must make at least one registered check fail.
# usage: tools/run_all_seeded.sh            (applies each patch to /repo transiently; /repo must be clean)
cd "$(dirname "$0")/.."
miss=0
for d in seeded/*/; do
  d=${d%/}
  [ -f $d/patch.diff ] || continue
  if python3 -c "import json,sys;sys.exit(0 if json.load(open('$d/meta.json')).get('obsolete') else 1)" 2>/dev/null; then
    out=$(python3 tools/run_seeded.py $d 2>&1)
    if echo "$out" | grep -q '"C[0-9][0-9]"'; then echo "ALARM   $d is marked obsolete (no longer breaks its property) but a check fires: $out"; miss=1; else echo "silent  $d (obsolete: neutralised by a later fix; must not raise an alarm)"; fi
    continue
  fi
  out=$(python3 tools/run_seeded.py $d 2>&1)
  props=$(echo "$out" | grep -o '"C[0-9][0-9]"' | tr -d '"' | tr '\n' ' ')
  own=$(python3 -c "import json;print(json.load(open('$d/meta.json'))['property'])" 2>/dev/null)
  if [ -z "$props" ]; then echo "MISSED  $d"; miss=1;
  elif echo "$props" | grep -q "$own"; then echo "caught  $d by $props";
  else echo "caught* $d by $props (not by its own property $own)"; fi
  if echo "$out" | grep -q INFRA; then echo "  INFRA error in: $out" | head -5; fi
done
exit $miss
