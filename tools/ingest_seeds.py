#!/usr/bin/env python3
"""Copies the two changes each seeding agent left in <round dir>/<Cnn>/_seed/{A,B} to /verif/seeded/R<k>-<Cnn>-<slug>/
(files unchanged: confirm_seeded.sh re-creates the _seed/A|B layout) and writes a meta.json stub.
usage: ingest_seeds.py /tmp/s6 6 [C01 ..]"""
import json
import os
import re
import shutil
import sys

root, rnd = sys.argv[1], sys.argv[2]
done = []
for pid in (sys.argv[3:] or sorted(os.listdir(root))):
    for ab in ("A", "B"):
        src = "%s/%s/_seed/%s" % (root, pid, ab)
        if not os.path.exists(src + "/patch.diff") or not os.path.exists(src + "/demo.sh"):
            print("MISSING", src)
            continue
        notes = open(src + "/NOTES.md").read() if os.path.exists(src + "/NOTES.md") else ""
        m = re.search(r"SLUG:\s*`?([A-Za-z0-9-]+)`?", notes)
        slug = m.group(1).lower() if m else "change-" + ab.lower()
        m = re.search(r"NEEDS:\s*(.+)", notes)
        needs = m.group(1).strip() if m else ""
        dst = "/verif/seeded/R%s-%s-%s" % (rnd, pid, slug[:60])
        if os.path.exists(dst):
            continue
        shutil.copytree(src, dst)
        json.dump(dict(property=pid, round=int(rnd), needs=needs, caught_by=[], history="", confirmed="", checks_run="",
                       origin="written by an independent sub-agent that saw only the property text, a scratch worktree and the list of "
                              "mechanisms used by earlier rounds (two changes per agent)"),
                  open(dst + "/meta.json", "w"), indent=1)
        done.append(dst)
print("\n".join(done))
print(len(done))
