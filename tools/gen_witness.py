#!/usr/bin/env python3
"""Writes /verif/witness/*.json: one-edit mutants of sylt (and behaviour-preserving twins) used by the thorough tier."""
import json
import os

HERE = os.path.dirname(os.path.dirname(os.path.abspath(__file__)))
OUT = os.path.join(HERE, "witness")
os.makedirs(OUT, exist_ok=True)

TC = "sylt-compiler/src/typechecker.rs"
NR = "sylt-compiler/src/name_resolution.rs"
IR = "sylt-compiler/src/intermediate.rs"
LUA = "sylt-compiler/src/lua.rs"
DEP = "sylt-compiler/src/dependency.rs"
COMP = "sylt-compiler/src/compiler.rs"
PEX = "sylt-parser/src/expression.rs"
PST = "sylt-parser/src/statement.rs"
PPA = "sylt-parser/src/parser.rs"
TOK = "sylt-tokenizer/src/tokenizer.rs"
TOKT = "sylt-tokenizer/src/token.rs"
PRE = "sylt-compiler/src/preamble.lua"
LIB = "sylt/src/lib.rs"
MAIN = "sylt/src/main.rs"

W = []


def m(name, props, expect, file, old, new, count=1):
    W.append(dict(name=name, properties=props, expect=expect, edits=[dict(file=file, old=old, new=new, count=count)]))


# ---- VISIT
m("visit-dep-index-dropped", ["C11"], ["VISIT-dep|dependency::dependencies|Index.index"], DEP,
  "E::Index { value, index, .. } => dependencies(value)\n            .union(&dependencies(index))\n            .cloned()\n            .collect(),",
  "E::Index { value, .. } => dependencies(value),")
m("visit-dep-assign-target-dropped", ["C11"], ["VISIT-dep|dependency::statement_dependencies|Assignment.target"], DEP,
  "S::Assignment { target, value, .. } => dependencies(target)\n            .union(&dependencies(value))\n            .cloned()\n            .collect(),",
  "S::Assignment { value, .. } => dependencies(value),")
m("visit-lower-call-args-dropped", ["C01"], ["VISIT-lower|IRCodeGen::expression|Call.args", "PIPE", "VISIT-lower"], IR,
  "args.iter().map(|expr| self.expression(expr, ctx)).unzip();\n                let code = code.concat();\n\n                let var = self.var();\n                (\n                    [fn_code, code, vec![IR::Call(var, fn_var, args)]].concat(),",
  "args.iter().take(0).map(|expr| self.expression(expr, ctx)).unzip();\n                let code = code.concat();\n\n                let var = self.var();\n                (\n                    [fn_code, code, vec![IR::Call(var, fn_var, args)]].concat(),")
m("twin-dep-arms-reordered", ["C11"], "silent", DEP,
  "        E::BlobAccess { value, .. } => dependencies(value),\n        E::Index { value, index, .. } => dependencies(value)\n            .union(&dependencies(index))\n            .cloned()\n            .collect(),",
  "        E::Index { value, index, .. } => dependencies(value)\n            .union(&dependencies(index))\n            .cloned()\n            .collect(),\n        E::BlobAccess { value, .. } => dependencies(value),")
m("visit-tc-loop-body-unchecked", ["C03"], ["VISIT-tc|TypeChecker::statement|Loop.body"], TC,
  "let (body_ret, _) = self.expression_block(*span, &body, ctx.enter_loop())?;\n                self.unify_option(*span, ctx, ret, body_ret)",
  "let _ = body;\n                Ok(ret)")

# ---- SCOPE
m("scope-function-truncate-dropped", ["C09", "C02"], ["SCOPE|Resolver::expression|Function"], NR,
  "                let body = self.block(body)?;\n                self.stack.truncate(ss);\n                E::Function {",
  "                let body = self.block(body)?;\n                E::Function {")
m("scope-block-truncate-dropped", ["C09", "C02"], ["SCOPE|Resolver::statement|Block"], NR,
  "                let statements = self.block(statements)?;\n                self.stack.truncate(ss);",
  "                let statements = self.block(statements)?;")
m("twin-scope-marker-renamed", ["C09"], "silent", NR,
  "                let ss = self.stack.len();\n                let statements = self.block(statements)?;\n                self.stack.truncate(ss);",
  "                let height = self.stack.len();\n                let statements = self.block(statements)?;\n                self.stack.truncate(height);")
m("lookup-outermost-first", ["C09"], ["LOOKUP|Resolver::lookup|innermost-first"], NR,
  "for (var_name, var_id) in self.stack.iter().rev() {\n            if var_name == name {\n                return Ok(*var_id);",
  "for (var_name, var_id) in self.stack.iter() {\n            if var_name == name {\n                return Ok(*var_id);")
m("decl-order-value-pushed-first", ["C09"], ["DECL-ORDER|Resolver::statement|Definition|value-after"], NR,
  "                    let value_maybe = self.expression(value);\n                    let var = self.push_var(ident, *kind);\n                    (value_maybe?, var)",
  "                    let var = self.push_var(ident, *kind);\n                    let value_maybe = self.expression(value);\n                    (value_maybe?, var)")

# ---- DISCHARGE
# (since fix cc45902 the operator handlers are symmetric and record on both nodes: checking one operand is enough, so
#  this edit and the one-sided registration below are behaviour-preserving twins now)
m("twin-binop-second-check-dropped", ["C03", "C02"], "silent", TC,
  "        $self.check_constraints($span, $ctx, a)?;\n        $self.check_constraints($span, $ctx, b)?;\n        with_ret($self.unify_option($span, $ctx, a_ret, b_ret)?, a)",
  "        $self.check_constraints($span, $ctx, a)?;\n        with_ret($self.unify_option($span, $ctx, a_ret, b_ret)?, a)")
m("discharge-blobaccess-check-dropped", ["C05", "C02"], ["DISCHARGE|expression|Constraint::Field"], TC,
  "self.add_constraint(outer, *span, Constraint::Field(field.clone(), field_ty));\n                self.check_constraints(*span, ctx, outer)?;",
  "self.add_constraint(outer, *span, Constraint::Field(field.clone(), field_ty));")
m("twin-discharge-checks-swapped", ["C03"], "silent", TC,
  "        $self.check_constraints($span, $ctx, a)?;\n        $self.check_constraints($span, $ctx, b)?;\n        with_ret(",
  "        $self.check_constraints($span, $ctx, b)?;\n        $self.check_constraints($span, $ctx, a)?;\n        with_ret(")

# ---- CTX
m("ctx-if-branch-fresh-context", ["C04", "C05"], ["CTX|inside_pure|expression|If", "CTX|inside_loop|expression|If"], TC,
  "                        let (block_ret, block_value) =\n                            self.expression_block(*span, &branch.body, ctx)?;",
  "                        let (block_ret, block_value) =\n                            self.expression_block(*span, &branch.body, TypeCtx::new())?;")
m("ctx-enter-loop-resets-pure", ["C04"], ["CTX|TypeCtx::enter_loop|summary", "CTX|inside_pure"], TC,
  "        Self { inside_loop: true, ..self }", "        Self { inside_loop: true, inside_pure: false }")
m("ctx-loop-not-entered", ["C05"], ["CTX|inside_loop|statement|Loop"], TC,
  "self.expression_block(*span, &body, ctx.enter_loop())?;", "self.expression_block(*span, &body, ctx)?;")
m("twin-enter-loop-literal", ["C04", "C05"], "silent", TC,
  "        Self { inside_loop: true, ..self }", "        Self { inside_loop: true, inside_pure: self.inside_pure }")
m("guard-pure-assignment-dropped", ["C04"], ["GUARD|statement|Assignment|in-pure"], TC,
  "                if ctx.inside_pure {\n                    return err_type_error!(\n                        self,\n                        *span,\n                        TypeError::Exotic,\n                        \"Cannot make assignments in pure functions\"\n                    );\n                }\n",
  "")
m("guard-break-inverted", ["C05"], ["GUARD|statement|Break|outside-loop"], TC,
  "            S::Break(span) => {\n                if !ctx.inside_loop {", "            S::Break(span) => {\n                if ctx.inside_loop {")
m("binder-param-mutable", ["C04"], ["BINDER-KIND|Resolver::expression|Function|params"], NR,
  "let var = self.push_var(n, VarKind::Const);\n                    params.push(", "let var = self.push_var(n, VarKind::Mutable);\n                    params.push(")

# ---- ACCEPT
m("accept-add-int-str", ["C03"], ["ACCEPT|add|ok-set"], TC,
  "(Type::Float, Type::Float) | (Type::Int, Type::Int) | (Type::Str, Type::Str) => Ok(()),",
  "(Type::Float, Type::Float) | (Type::Int, Type::Int) | (Type::Str, Type::Str) | (Type::Int, Type::Str) => Ok(()),")
m("accept-purity-pair", ["C04"], ["PURITY-UNIFY|sub_unify|purity-pairs"], TC,
  "                            (Purity::Impure, Purity::Impure) => Purity::Impure,", "                            (Purity::Impure, Purity::Impure) |\n                            (Purity::Pure, Purity::Impure) => Purity::Impure,")
m("accept-can-assign-call", ["C04"], ["ASSIGNABILITY|can_assign|accept-set", "ASSIGNABILITY|can_assign|reject-set"], TC,
  "            E::BlobAccess { .. } => {}\n\n            // Only tuples can be indexed like this, and tuples are immutable.\n            E::Index { .. }\n            | E::Variant { .. }\n            | E::Call { .. }",
  "            E::BlobAccess { .. } | E::Call { .. } => {}\n\n            // Only tuples can be indexed like this, and tuples are immutable.\n            E::Index { .. }\n            | E::Variant { .. }")
m("shape-index-out-of-range-ok", ["C05"], ["SHAPE-ACCEPT|constant_index|out-of-range"], TC,
  "                None => err_type_error!(\n                    self,\n                    span,\n                    TypeError::TupleIndexOutOfRange { got: index, length: tys.len() }\n                ),",
  "                None => Ok(()),")

# ---- PIPE
m("pipe-sub-operands-swapped", ["C01", "C19"], ["PIPE|emission|IR::Sub", "CHECKER-AGREES|emission|Sub"], LUA,
  'IR::Sub(t, a, b) => ii!(self, t, "({} - {})", a, b),', 'IR::Sub(t, a, b) => ii!(self, t, "({} - {})", b, a),')
m("pipe-less-becomes-le", ["C01"], ["PIPE|emission|IR::Less"], LUA,
  'IR::Less(t, a, b) => ii!(self, t, "({} < {})", a, b),', 'IR::Less(t, a, b) => ii!(self, t, "({} <= {})", a, b),')
m("pipe-parser-minus-is-add", ["C01"], ["PIPE|parser|Minus"], PEX,
  "        T::Minus => Sub(lhs, rhs),", "        T::Minus => Add(lhs, rhs),")
m("pipe-lowering-gt-is-ge", ["C01"], ["PIPE|lowering|BinOp::Greater"], IR,
  "BinOp::Greater => vec![IR::Greater(c, a, b)],", "BinOp::Greater => vec![IR::GreaterEqual(c, a, b)],")
m("pipe-compound-operands-swapped", ["C01"], ["PIPE|assign-lowering|Sub"], IR,
  "BinOp::Sub => IR::Sub(res, current, var),", "BinOp::Sub => IR::Sub(res, var, current),")

# ---- IRP
m("irp-or-end-removed", ["C01", "C06"], ["IRP-bracket|expression|BinOp/Or"], IR,
  "                        vec![\n                            IR::Define(c),\n                            IR::Bool(default, true),\n                            IR::Assign(c, default),\n                            IR::Not(neg_a, a),\n                            IR::If(neg_a),\n                        ],\n                        bops,\n                        vec![IR::Assign(c, b), IR::End],",
  "                        vec![\n                            IR::Define(c),\n                            IR::Bool(default, true),\n                            IR::Assign(c, default),\n                            IR::Not(neg_a, a),\n                            IR::If(neg_a),\n                        ],\n                        bops,\n                        vec![IR::Assign(c, b)],")
m("irp-and-rhs-hoisted", ["C01"], ["IRP-shortcircuit|And|right-operand-inside-if"], IR,
  "                        aops,\n                        vec![\n                            IR::Define(c),\n                            IR::Bool(default, false),\n                            IR::Assign(c, default),\n                            IR::If(a),\n                        ],\n                        bops,",
  "                        aops,\n                        bops,\n                        vec![\n                            IR::Define(c),\n                            IR::Bool(default, false),\n                            IR::Assign(c, default),\n                            IR::If(a),\n                        ],")
W.append(dict(name="irp-variant-not-counted", properties=["C01"], expect=["IRP-read|Variant"], edits=[
    dict(file=IR, old="            | IR::Variant(_, _, a)\n", new="", count=1),
    dict(file=IR, old="            | IR::HaltAndCatchFire(_) => {}", new="            | IR::Variant(_, _, _)\n            | IR::HaltAndCatchFire(_) => {}", count=1)]))
m("irp-call-inlinable", ["C01"], ["IRP-order|Call|materialised"], LUA,
  '                IR::Call(t, f, args) => {\n                    write!(self.out, "local ");\n                    let t = self.expand(t);\n                    write!(self.out, "{}", t);\n                    write!(self.out, " = ");\n                    let f = self.expand(f);\n                    write!(self.out, "{}", f);\n                    let args = self.comma_sep(args).to_string();\n                    write!(self.out, "({})", args);\n                }',
  '                IR::Call(t, f, args) => {\n                    let f = self.expand(f);\n                    let args = self.comma_sep(args).to_string();\n                    iis!(self, t, "{}({})", f, args)\n                }')
m("irp-if-out-undeclared", ["C10"], ["IRP-local|expression|If|out"], IR,
  "                    [\n                        vec![IR::Define(out)],\n                        code,\n                        branches.iter().map(|_| IR::End).collect(),\n                    ]",
  "                    [\n                        code,\n                        branches.iter().map(|_| IR::End).collect(),\n                    ]")
m("irp-copy-inlinable", ["C10"], ["SNAPSHOT|Copy|never-inlined", "DECLARING-OPS|Copy"], LUA,
  '                IR::Copy(t, a) => {\n                    if self.usage_count.get(t).unwrap_or(&0) > &0 {\n                        let t = self.expand(t);\n                        let a = self.expand(a);\n                        write!(self.out, "local {} = {}", t, a);\n                    }\n                }',
  '                IR::Copy(t, a) => ii!(self, t, "{}", a),')

# ---- GRAMMAR / LEX
m("grammar-loop-missing-do", ["C06"], ["GRAMMAR|Loop"], LUA,
  'write!(self.out, "while true do");', 'write!(self.out, "while true");')
m("final-return-unwrapped", ["C06"], ["IRP-final|Return"], LUA,
  'write!(self.out, "do return ");', 'write!(self.out, "return ");')

# ---- HASH
m("hash-namespace-vec", ["C16"], ["HASH|"], NR,
  "        let best_global = self.namespaces[namespace]\n            .keys()\n            .map(|var_name| (levenshtein(var_name, name), var_name.clone()))\n            .min();",
  "        let best_global = self.namespaces[namespace]\n            .keys()\n            .map(|var_name| (levenshtein(var_name, name), var_name.clone()))\n            .next();")
m("ambient-time-in-compiler", ["C16"], ["AMBIENT|"], COMP,
  "        self.extract_namespaces(&tree);\n", "        self.extract_namespaces(&tree);\n        let _t = std::time::Instant::now();\n")

# ---- CONTRACT / GUARD
m("contract-outer-allows-loop", ["C07"], ["CONTRACT|K1'"], PST,
  "        | EmptyStatement\n        => Ok((ctx, stmt)),", "        | EmptyStatement\n        | Loop { .. }\n        => Ok((ctx, stmt)),")
m("contract-op-add-maps-to-and", ["C07", "C01"], ["CONTRACT|K3|ops", "PIPE|assign|PlusEqual"], NR,
  "                    Op::Add => BinOp::Add,", "                    Op::Add => BinOp::And,")
m("contract-index-any-expression", ["C07"], ["CONTRACT|K6"], PPA,
  "        if let (_ctx, expr @ Expression { kind: ExpressionKind::Int(_), .. }) = expression(ctx)? {",
  "        if let (_ctx, expr @ Expression { .. }) = expression(ctx)? {")
m("guard-sub-unify-seen-removed", ["C07"], ["GUARD|sub_unify"], TC,
  "        if a == b || seen.contains(&(a, b)) {\n            return Ok(a);\n        }\n\n        // Equivalence is symetrical!\n        seen.insert((a, b));\n        seen.insert((b, a));\n",
  "        if a == b {\n            return Ok(a);\n        }\n        let _ = &seen;\n")
m("guard-inner-nested-statement", ["C07"], ["CONTRACT|K1|unfiltered-caller"], PST,
  "        match inner_statement(ctx) {", "        match statement(ctx) {")

# ---- precedence
m("prec-and-or-swapped", ["C13"], ["ORDER|Prec|declaration-order"], PPA,
  "    BoolOr,\n    BoolAnd,", "    BoolAnd,\n    BoolOr,")
m("prec-and-level-or", ["C13"], ["LEVELS|precedence|And"], PEX,
  "        T::And => Prec::BoolAnd,", "        T::And => Prec::BoolOr,")
m("prec-no-next", ["C13"], ["LEFT-ASSOC|infix|rhs-at-next-level"], PEX,
  "parse_precedence(ctx, precedence(op).next())?;", "parse_precedence(ctx, precedence(op))?;")
m("prec-unary-at-term", ["C13"], ["UNARY|unary|operand-level"], PEX,
  "let (ctx, expr) = parse_precedence(ctx, Prec::Factor)?;", "let (ctx, expr) = parse_precedence(ctx, Prec::Term)?;")

# ---- layout pairing
m("layout-list-pop-dropped", ["C14"], ["NEWLINE-FLAG|expression::list"], PEX,
  "    let ctx = ctx.pop_skip_newlines(skip_newlines);\n    let ctx = expect!(ctx, T::RightBracket, \"Expected ']'\");",
  "    let ctx = expect!(ctx, T::RightBracket, \"Expected ']'\");")
m("layout-prime-call-other-node", ["C14"], ["ONE-CALL-NODE|assignable_call|single-constructor"], PPA,
  "    let result = Assignable { span, kind: Call(Box::new(callee), args) };",
  "    let result = if primer {\n        Assignable { span, kind: Call(Box::new(callee), args.into_iter().rev().collect()) }\n    } else {\n        Assignable { span, kind: Call(Box::new(callee), args) }\n    };")

# ---- tokenizer
m("tok-col-from-byte", ["C17"], ["UNIT|Span.col_start"], TOK,
  "let col_start = char_at_byte[byte_range.start].unwrap() - last_newline;", "let col_start = byte_range.start + 1 - last_newline;")
m("tok-line-advance-only-newline", ["C17", "C15"], ["LINE|advance|String"], TOK,
  "                for (offset, _) in content[byte_range.clone()].match_indices('\\n') {\n                    last_newline = char_at_byte[byte_range.start + offset].unwrap();\n                    line += 1;\n                }\n",
  "")
m("tok-newline-skipped", ["C17"], ["SKIP|only-whitespace", "SKIP|newline-is-token"], TOKT,
  '#[token("\\n")]\n    Newline,', '#[token("\\n", logos::skip)]\n    Newline,')

# ---- modules
m("mod-visited-test-dropped", ["C12"], ["VISIT-ONCE|tree|"], PPA,
  "        if visited.contains(&include) {\n            continue;\n        }\n", "")
m("mod-fromuse-key-import-name", ["C12"], ["IMPORT-NAME|FromUse|key"], NR,
  "                        let var = import_as.as_ref().unwrap_or(import_name);", "                        let var = import_name;")
m("mod-lookup-scans-all", ["C12"], ["ISOLATION|no-scan", "ISOLATION|lookup_global"], NR,
  "        let namespace = &self.namespace_to_file[&namespace_id];\n        self.namespaces[namespace].get(name)\n    }",
  "        let namespace = &self.namespace_to_file[&namespace_id];\n        self.namespaces[namespace]\n            .get(name)\n            .or_else(|| self.namespaces.values().filter_map(|ns| ns.get(name)).next())\n    }")

# ---- driver
m("drv-create-before-compile", ["C20"], ["ATOMIC|compile-before-create"], LIB,
  "            let mut buf = Vec::new();\n            // NOTE(ed): Lack of running\n            compile_with_reader_to_writer(args, reader, buf.by_ref())?;\n\n            File::create(s)\n                .map_err(|e| vec![Error::IOError(Rc::new(e))])?\n                .write_all(&buf)",
  "            let mut buf = Vec::new();\n            let mut file = File::create(s).map_err(|e| vec![Error::IOError(Rc::new(e))])?;\n            // NOTE(ed): Lack of running\n            compile_with_reader_to_writer(args, reader, buf.by_ref())?;\n\n            file\n                .write_all(&buf)")
m("drv-main-always-ok", ["C20"], ["EXIT|main|errors=>Err"], MAIN,
  "        Err(format!(\"{} errors occured.\", errs.len()))", "        Ok(())")
m("drv-require-in-loop", ["C20"], ["REQUIRE|"], LUA,
  "        let mut depth = 0;\n        for instruction in ir.iter() {\n",
  "        let mut depth = 0;\n        for instruction in ir.iter() {\n            if let Some(file) = require {\n                write!(self.out, \"require \\\"{}\\\"\", file);\n            }\n")
m("drv-write-not-all", ["C20"], ["WRITE-CHECKED|"], LIB,
  "                .write_all(&buf)", "                .write(&buf)")

# ---- Lua library
m("lua-tuple-sub-uses-plus", ["C19"], ["ARITH|tuple|__sub|operator"], PRE,
  "        out[x] = a[x] - b[x]", "        out[x] = a[x] + b[x]")
m("lua-lt-tie-true", ["C19"], ["ORDER|tuple|__lt|tie"], PRE,
  "            return a[x] < b[x]\n        end\n    end\n    return false\nend\n__TUPLE_META.__le", "            return a[x] < b[x]\n        end\n    end\n    return true\nend\n__TUPLE_META.__le")
m("lua-set-remove-raw-key", ["C18"], ["KEY-NORM|set_remove"], PRE,
  "function set_remove(set, k)\n    set[tostring(k)] = nil", "function set_remove(set, k)\n    set[k] = nil")
m("lua-list-get-no-plus-one", ["C18"], ["INDEX-BASE|list_get"], PRE,
  "function list_get(l, i)\n    x = l[i+1]", "function list_get(l, i)\n    x = l[i]")
m("lua-dict-get-renamed", ["C18"], ["EXTERNALS|dict.dict_get"], PRE,
  "function dict_get(dict, k)", "function dict_fetch(dict, k)")
m("lua-fold-callback-arity", ["C18"], ["EXTERNALS|list.list_fold|callback-f"], PRE,
  "        a = f(v, a)", "        a = f(a)")

# ---- annotations / non-interference
m("nonint-lowering-reads-kind", ["C08"], ["NO-TYPE-FLOW|"], IR,
  "        .find(|x| &x.name == \"start\" && x.is_global && x.definition.file_id == 0)\n        .unwrap()\n        .id);",
  "        .find(|x| &x.name == \"start\" && x.is_global && x.definition.file_id == 0 && x.kind.immutable())\n        .unwrap()\n        .id);")
m("names-lowering-uses-function-name", ["C09"], ["NAMES|"], IR,
  "            E::Function { body, params, .. } => {\n                let mut body = body.clone();",
  "            E::Function { body, params, name, .. } => {\n                let _dbg = name.len();\n                let mut body = body.clone();")


# ---- rules added after the second seeding round
m("twin-pair-assign-add-one-sided", ["C03", "C02"], "silent", TC,
  "                        self.add_constraint(expression_ty, *span, Constraint::Add(target_ty));\n                        self.add_constraint(target_ty, *span, Constraint::Add(expression_ty));",
  "                        self.add_constraint(target_ty, *span, Constraint::Add(expression_ty));")
m("twin-pair-mul-lines-swapped", ["C03", "C02"], "silent", TC,
  "                        self.add_constraint(expression_ty, *span, Constraint::Mul(target_ty));\n                        self.add_constraint(target_ty, *span, Constraint::Mul(expression_ty));",
  "                        self.add_constraint(target_ty, *span, Constraint::Mul(expression_ty));\n                        self.add_constraint(expression_ty, *span, Constraint::Mul(target_ty));")
m("fieldsets-missing-in-a-tolerated", ["C02", "C03"], ["FIELD-SETS|sub_unify|Blob|b_fields-subset-of-a_fields"], TC,
  "                            Some(b_ty) => *b_ty,\n                            None => {\n                                return err_type_error!(\n                                    self,\n                                    span,\n                                    TypeError::MissingField {\n                                        blob: a_blob.clone(),\n                                        field: b_field.clone()\n                                    }\n                                )\n                                .help(\n                                    self,\n                                    a_span,\n                                    \"Defined here\".to_string(),\n                                );\n                            }",
  "                            Some(b_ty) => *b_ty,\n                            None => {\n                                let _ = (&a_blob, &a_span);\n                                continue;\n                            }")
m("twin-fieldsets-keys-iterator", ["C02", "C03"], "silent", TC,
  "                    for (a_field, _) in a_fields.iter() {\n                        if !b_fields.contains_key(a_field) {",
  "                    for a_field in a_fields.keys() {\n                        if !b_fields.contains_key(a_field) {")
m("nodespan-index-after-bracket", ["C15"], ["NODE-SPAN|assignable_index|Assignable"], PPA,
  "    let ctx = expect!(ctx, T::RightBracket, \"Expected ']' after index\");\n\n    use AssignableKind::Index;\n    let result = Assignable {\n        span,",
  "    let ctx = expect!(ctx, T::RightBracket, \"Expected ']' after index\");\n    let _ = span;\n\n    use AssignableKind::Index;\n    let result = Assignable {\n        span: ctx.span(),")
m("twin-nodespan-entry-alias", ["C15"], "silent", PPA,
  "fn assignable_index<'t>(ctx: Context<'t>, indexed: Assignable) -> ParseResult<'t, Assignable> {\n    let span = ctx.span();",
  "fn assignable_index<'t>(ctx: Context<'t>, indexed: Assignable) -> ParseResult<'t, Assignable> {\n    let entry = ctx;\n    let span = entry.span();")
m("guardloc-inner-statement-after", ["C15"], ["GUARD-LOCATION|inner_statement|"], PST,
  "            let err = syntax_error!(ctx, \"Only valid as an outer statement\");",
  "            let err = syntax_error!(new_ctx, \"Only valid as an outer statement\");")
m("namespan-type-at-outer-span", ["C15"], ["NAME-SPAN|Resolver::ty_assignable|"], NR,
  "                    None => raise_resolution_error! {\n                        self,\n                        ty.span,\n                        \"No type named {:?}\",",
  "                    None => raise_resolution_error! {\n                        self,\n                        span,\n                        \"No type named {:?}\",")
m("cursor-skip-if-moves-cursor", ["C14"], ["CURSOR|writers"], PPA,
  "        if self.token() == &token {\n            self.skip(1)\n        } else {",
  "        if self.token() == &token {\n            let mut new = *self;\n            new.curr += 1;\n            new\n        } else {")
m("cbroles-dict-foreach-passes-key", ["C18"], ["CALLBACK-ROLES|dict.dict_for_each|"], PRE,
  "function dict_for_each(dict, f)\n    for _k, v in pairs(dict) do\n        f(v)", "function dict_for_each(dict, f)\n    for _k, v in pairs(dict) do\n        f(_k)")
m("twin-cbroles-loop-variable-renamed", ["C18"], "silent", PRE,
  "function list_for_each(l, f)\n    for _, v in pairs(l) do\n        f(v)", "function list_for_each(l, f)\n    for _, item in pairs(l) do\n        f(item)")
m("looplabel-body-keeps-outer-context", ["C06"], ["LOOP-LABEL|IRCodeGen::statement|Loop|"], IR,
  "                    .map(|stmt| self.statement(&stmt, IRContext { closest_loop: l, ..ctx }))",
  "                    .map(|stmt| self.statement(&stmt, ctx))")
m("twin-looplabel-context-in-a-let", ["C06"], "silent", IR,
  "                let body = body\n                    .iter()\n                    .map(|stmt| self.statement(&stmt, IRContext { closest_loop: l, ..ctx }))",
  "                let inner = IRContext { closest_loop: l, ..ctx };\n                let body = body\n                    .iter()\n                    .map(|stmt| self.statement(&stmt, inner))")
m("collision-fromuse-kind-only", ["C12"], ["COLLISION|FromUse|compares-entries"], NR,
  "                            Entry::Occupied(occ) if occ.get() != &to_insert => {\n                                let span = match occ.get() {\n                                    Name::Name(r) => self.variables[*r].definition,\n                                    Name::Namespace(_, span) => *span,\n                                };\n                                let err = resolution_error!(\n                                    self,\n                                    var.span,",
  "                            Entry::Occupied(occ) if !matches!(occ.get(), Name::Name(_)) => {\n                                let span = match occ.get() {\n                                    Name::Name(r) => self.variables[*r].definition,\n                                    Name::Namespace(_, span) => *span,\n                                };\n                                let err = resolution_error!(\n                                    self,\n                                    var.span,")
m("twin-collision-operands-swapped", ["C12"], "silent", NR,
  "                            Entry::Occupied(occ) if occ.get() != &to_insert => {\n                                let span = match occ.get() {\n                                    Name::Name(r) => self.variables[*r].definition,\n                                    Name::Namespace(_, span) => *span,\n                                };\n                                let err = resolution_error!(\n                                    self,\n                                    var.span,",
  "                            Entry::Occupied(occ) if &to_insert != occ.get() => {\n                                let span = match occ.get() {\n                                    Name::Name(r) => self.variables[*r].definition,\n                                    Name::Namespace(_, span) => *span,\n                                };\n                                let err = resolution_error!(\n                                    self,\n                                    var.span,")
m("drv-output-not-truncated", ["C20"], ["ATOMIC|output-truncated"], LIB,
  "            File::create(s)\n", "            std::fs::OpenOptions::new().write(true).create(true).open(s)\n")
m("twin-drv-openoptions-truncate", ["C20"], "silent", LIB,
  "            File::create(s)\n", "            std::fs::OpenOptions::new().write(true).create(true).truncate(true).open(s)\n")
m("twin-annotation-purity-renamed", ["C04", "C08"], "silent", TC,
  "                let purity = is_pure.then(|| Purity::Pure).unwrap_or(Purity::Undefined);\n                Type::Function(params, ret, purity)",
  "                let p = if *is_pure { Purity::Pure } else { Purity::Undefined };\n                Type::Function(params, ret, p)")
m("annotation-fn-resolves-impure", ["C04", "C08"], ["PURITY-UNIFY|inner_resolve_type|annotation-purity", "ANNOTATION-PERMISSIVE|"], TC,
  "                let purity = is_pure.then(|| Purity::Pure).unwrap_or(Purity::Undefined);",
  "                let purity = is_pure.then(|| Purity::Pure).unwrap_or(Purity::Impure);")
# (since fix 4962bd7 name resolution guarantees the start variable, this arm is dead: a twin now)
m("twin-start-missing-arm-ok", ["C07", "C05"], "silent", TC,
  "            None => {\n                // TODO[ed]: Is this unreachable?\n                err_type_error!(\n                    self,\n                    Span::zero(0),\n                    TypeError::Exotic,\n                    \"Expected a start function in the main module - but couldn't find it\"\n                )\n            }",
  "            None => Ok(()),")
m("dep-blob-fields-not-edges", ["C11", "C03"], ["VISIT-dep|dependency::statement_dependencies|Blob.fields"], DEP,
  "        S::Blob { var, fields: types, .. } | S::Enum { var, variants: types, .. } => {",
  "        S::Blob { .. } => BTreeSet::new(),\n        S::Enum { var, variants: types, .. } => {")


# ---- rules added after the bug-hunting round
m("defer-add-unknown-not-recorded", ["C03", "C02"], ["DEFER-RECORDED|add|unknown-arm"], TC,
  "                self.add_constraint(a, span, Constraint::Add(b));\n                self.add_constraint(b, span, Constraint::Add(a));\n                Ok(())", "                Ok(())")
m("retfold-if-no-else-drops-returns", ["C03", "C02"], ["RET-FOLD|expression|If"], TC,
  "                    for (span, branch_ret, _) in tys.iter() {\n                        ret = self\n                            .unify_option(**span, ctx, *branch_ret, ret)\n                            .help_no_span(\n                                \"The return from this block doesn't match the earlier branches\"\n                                    .into(),\n                            )?;\n                    }\n                    let void = self.push_type(Type::Void);",
  "                    let void = self.push_type(Type::Void);")
m("binder-self-untyped", ["C03", "C05", "C02"], ["BINDER-TYPED|Expression::Blob.self_var"], TC,
  "                self.unify(*span, ctx, self.variables[*self_var].ty, given_blob)?;\n", "                let _ = self_var;\n")
m("typename-read-allowed", ["C02", "C03"], ["TYPE-NAME|expression|Read"], TC,
  "                if self.type_declarations.contains(var) {", "                if false && self.type_declarations.contains(var) {")
m("assignop-unify-only", ["C03", "C02"], ["DISCHARGE|statement|Constraint::"], TC,
  "                    self.check_constraints(*span, ctx, expression_ty)?;\n                    self.check_constraints(*span, ctx, target_ty)?;\n                }\n                self.unify_option(*span, ctx, expression_ret, target_ret)",
  "                }\n                self.unify_option(*span, ctx, expression_ret, target_ret)")
m("purity-merge-forgotten", ["C04"], ["PURITY-UNIFY|sub_unify|merge-keeps-purity"], TC,
  "                    self.find_node_mut(a).ty = Type::Function(a_args.clone(), a_ret, purity.clone());\n                    self.find_node_mut(b).ty = Type::Function(b_args.clone(), b_ret, purity);\n",
  "                    let _ = purity;\n")
m("start-any-module", ["C05", "C11", "C12"], ["START|intermediate::compile|start-defined-in-main"], IR,
  "        .find(|x| &x.name == \"start\" && x.is_global && x.definition.file_id == 0)\n        .unwrap()",
  "        .find(|x| &x.name == \"start\" && x.is_global)\n        .unwrap()")
m("latereaed-compound-assign", ["C01", "C10"], ["IRP-order|statement|Assignment|", "SNAPSHOT|statement|Assignment|"], IR,
  "                        let current = self.var();\n                        (\n                            vec![IR::Copy(current, Var(*var))],\n                            current,\n                            vec![IR::Assign(Var(*var), res)],\n                        )",
  "                        (Vec::new(), Var(*var), vec![IR::Assign(Var(*var), res)])")
m("dep-signature-not-edges", ["C11"], ["VISIT-dep|dependency::dependencies|Function.params", "VISIT-dep|dependency::dependencies|Function.ret"], DEP,
  "            .chain(params.iter().map(|(_, _, _, ty)| ty_dependency(ty)).flatten())\n            .chain(ty_dependency(ret))\n", "")
m("annotation-after-binder", ["C09"], ["DECL-ORDER|Resolver::expression|Function|annotation-before-binder"], NR,
  "                for ((n, _), ty) in parser_params.iter().zip(param_types.into_iter()) {\n                    let var = self.push_var(n, VarKind::Const);\n                    params.push((n.name.clone(), var, n.span, ty));\n                }",
  "                for ((n, t), _) in parser_params.iter().zip(param_types.into_iter()) {\n                    let var = self.push_var(n, VarKind::Const);\n                    params.push((n.name.clone(), var, n.span, self.ty(t)?));\n                }")
m("parens-shape-test-outermost", ["C14"], ["PARENS|Resolver::expression|shape-test"], NR,
  "                    if matches!(without_parenthesis(field).kind, EK::Function { .. }) {", "                    if matches!(field.kind, EK::Function { .. }) {")
m("prime-loses-level", ["C13"], ["LEVELS|precedence|Prime", "SETS|valid_infix|all-have-a-level"], PEX,
  "        T::LeftBracket | T::Dot | T::LeftParen | T::Prime => Prec::Index,", "        T::LeftBracket | T::Dot | T::LeftParen => Prec::Index,")
m("arrow-rhs-whole-expression", ["C14"], ["ARROW|parser|rhs-level"], PEX,
  "    let (ctx, rhs) = parse_precedence(ctx, Prec::Index)?;", "    let (ctx, rhs) = expression(ctx)?;")
m("ret-operand-speculative", ["C15"], ["PARSE-ERROR-DROPPED|statement|expression"], PST,
  "                let (ctx, value) = expression(ctx)?;\n                (ctx, Some(value))\n            };\n            (ctx, Ret { value })",
  "                match expression(ctx) {\n                    Ok((ctx, value)) => (ctx, Some(value)),\n                    Err(_) => (ctx, None),\n                }\n            };\n            (ctx, Ret { value })")
m("unsigned-sub-unguarded", ["C07"], ["UNSIGNED-SUB|Context::comments_since_last_statement"], PPA,
  "            .take(self.curr.saturating_sub(self.last_statement))", "            .take(self.curr - self.last_statement)")
m("digits-unicode-class", ["C17"], ["TABLE|ascii-classes-only"], TOKT,
  '#[regex(r"[0-9]+", |lex| lex.slice().parse())]', '#[regex(r"[\\d]+", |lex| lex.slice().parse())]')
m("listset-no-lower-bound", ["C18"], ["INDEX-BOUNDS|list_set|guard-excludes-invalid"], PRE,
  "    if i >= 0 and #l > i then", "    if #l > i then")
m("tuple-add-raw-plus", ["C19"], ["ARITH|tuple|__add|operator"], PRE,
  "        out[x] = __ADD(a[x], b[x])", "        out[x] = a[x] + b[x]")
m("output-create-expect", ["C20"], ["EXIT|output-file|io-errors-reported"], LIB,
  "            File::create(s)\n                .map_err(|e| vec![Error::IOError(Rc::new(e))])?\n", "            File::create(s)\n                .expect(\"Failed to create file\")\n")
m("twin-ret-operand-tokens-reordered", ["C15"], "silent", PST,
  "                T::Newline | T::End | T::Else | T::Elif | T::EOF", "                T::EOF | T::End | T::Else | T::Elif | T::Newline")
m("twin-neg-arms-reordered", ["C03", "C19"], "silent", TC,
  "            Type::Int | Type::Float => Ok(()),\n\n            // Negation is element-wise", "            Type::Float | Type::Int => Ok(()),\n\n            // Negation is element-wise")


# ---- PROGRESS (parser termination)
m("progress-block-error-arm-keeps-cursor", ["C07"], ["PROGRESS|statement::block|loop#1"], PST,
  "                ctx = _ctx.pop_skip_newlines(false); // assign to outer\n                ctx = skip_until!(ctx, T::Newline).skip_if(T::Newline);\n", "                let _ = _ctx;\n")
m("progress-module-error-arm-keeps-cursor", ["C07"], ["PROGRESS|sylt_parser::module|loop#1"], PPA,
  "            Err((ctx, mut errs)) => {\n                errors.append(&mut errs);\n\n                // \"Error recovery\"\n                skip_until!(ctx, T::Newline)\n            }",
  "            Err((_, mut errs)) => {\n                errors.append(&mut errs);\n                ctx\n            }")
m("progress-constraint-args-no-skip", ["C07"], ["PROGRESS|sylt_parser::parse_type_constraint_argument|loop#1"], PPA,
  "            }\n        }\n        ctx = ctx.skip(1);\n    }\n    Ok((ctx, args))", "            }\n        }\n    }\n    Ok((ctx, args))")
m("progress-blob-fields-newline-not-skipped", ["C07"], ["PROGRESS|statement::statement|loop#2"], PST,
  "                    T::Newline => {\n                        ctx = ctx.skip(1);\n                    }\n                    // Done with fields.", "                    T::Newline => {}\n                    // Done with fields.")
m("progress-call-args-eof-keeps-looping", ["C07"], ["PROGRESS|sylt_parser::assignable_call|loop#1"], PPA,
  "                if primer && !starts_expression(ctx.token()) {\n                    break;\n                }", "                if primer && !starts_expression(ctx.token()) {\n                    continue;\n                }")
m("progress-skip-counts-comments", ["C07"], ["PROGRESS|Context::skip|advances-n"], PPA,
  "            if !matches!(new.token(), T::Comment(_)) {\n                skipped += 1;\n            }\n            new.curr += 1;", "            if !matches!(new.token(), T::Comment(_)) {\n                skipped += 1;\n                new.curr += 1;\n            }")
m("twin-elif-loop-on-else-errors", ["C07"], "silent", PEX,
  "    while matches!(ctx.token(), T::Elif) {", "    while matches!(ctx.token(), T::Elif | T::Else) {")
m("progress-unary-recurses-on-its-own-token", ["C07"], ["PROGRESS|recursion|"], PEX,
  "    let (op, span, ctx) = ctx.eat();\n    let (ctx, expr) = parse_precedence(ctx, Prec::Factor)?;", "    let (op, span, _) = ctx.eat();\n    let (ctx, expr) = parse_precedence(ctx, Prec::Factor)?;")
# terminating variants of the recovery code (an error has been recorded, so nothing is emitted either way): no alarm
m("twin-block-recovery-keeps-newline", ["C07"], "silent", PST,
  "                ctx = skip_until!(ctx, T::Newline).skip_if(T::Newline);", "                ctx = skip_until!(ctx, T::Newline);")
m("twin-module-recovery-dropped", ["C07"], "silent", PPA,
  "                // \"Error recovery\"\n                skip_until!(ctx, T::Newline)", "                // \"Error recovery\"\n                ctx")
m("twin-call-args-eof-through-error", ["C07"], "silent", PPA,
  "            // Done with arguments.\n            T::EOF | T::RightParen => break,", "            // Done with arguments.\n            T::RightParen => break,")
m("twin-module-newline-test-reordered", ["C07"], "silent", PPA,
  "        if matches!(ctx.token(), T::Newline) {\n            ctx = ctx.skip(1);\n            continue;\n        }", "        if let T::Newline = ctx.token() {\n            ctx = ctx.skip(1);\n            continue;\n        }")


# ---- extraction twins (a few lines moved into a new private helper; the loader inlines unknown helpers)
m("twin-break-guard-extracted", ["C05", "C06"], "silent", TC,
  "            S::Break(span) => {\n                if !ctx.inside_loop {\n                    err_type_error!(\n                        self,\n                        *span,\n                        TypeError::Exotic,\n                        \"`break` only works in loops\"\n                    )\n                } else {\n                    Ok(None)\n                }\n            }",
  "            S::Break(span) => self.break_needs_loop(*span, ctx),")
W[-1]["edits"].append(dict(file=TC, old="    fn can_assign(", new="    fn break_needs_loop(&self, at: Span, ctx: TypeCtx) -> TypeResult<Option<TyID>> {\n        if !ctx.inside_loop {\n            err_type_error!(self, at, TypeError::Exotic, \"`break` only works in loops\")\n        } else {\n            Ok(None)\n        }\n    }\n\n    fn can_assign(", count=1))
m("twin-loop-lowering-extracted", ["C01", "C06", "C10"], "silent", IR,
  "                let (cops, c) = self.expression(&condition, ctx);\n                let l = self.label();",
  "                let (cops, c) = self.loop_condition(&condition, ctx);\n                let l = self.label();")
W[-1]["edits"].append(dict(file=IR, old="    fn definition(&mut self, var: Var, value: &Expression, ctx: IRContext) -> Vec<IR> {", new="    fn loop_condition(&mut self, cond: &Expression, ctx: IRContext) -> (Vec<IR>, Var) {\n        self.expression(cond, ctx)\n    }\n\n    fn definition(&mut self, var: Var, value: &Expression, ctx: IRContext) -> Vec<IR> {", count=1))

# ---- session-5 rules
m("env-params-not-monomorphic", ["C02", "C03"], ["COPY|environment|parameters-enter-before-the-body"], TC,
  "                self.monomorphic\n                    .extend(params.iter().map(|(_, var, _, _)| *var));\n", "")
m("env-definitions-not-monomorphic", ["C02", "C03"], ["COPY|environment|definitions-enter"], TC,
  "            } else {\n                self.monomorphic.push(*var);\n            }", "            }")
m("env-instantiate-copies-everything", ["C02", "C03"], ["COPY|expression|Read|variable-type|environment-stays-shared"], TC,
  "                    no_ret(self.instantiate(ty))", "                    no_ret(self.copy(ty))")
m("twin-env-scope-marker-renamed", ["C02"], "silent", TC,
  "                let outside = self.monomorphic.len();", "                let depth_before = self.monomorphic.len();")
W[-1]["edits"].append(dict(file=TC, old="                self.monomorphic.truncate(outside);", new="                self.monomorphic.truncate(depth_before);", count=1))
m("recheck-last-statement-twice", ["C07"], ["RE-CHECK|TypeChecker::expression_block|statement+expression"], TC,
  "            Some((Statement::StatementExpression { value, .. }, rest)) => (Some(value), rest),", "            Some((Statement::StatementExpression { value, .. }, _)) => (Some(value), statements.as_slice()),")
m("recheck-condition-checked-twice", ["C07"], ["RE-CHECK|TypeChecker::statement|expression+expression"], TC,
  "                let (ret, condition) = self.expression(&condition, ctx.enter_loop_condition())?;\n                let boolean = self.push_type(Type::Bool);",
  "                self.expression(&condition, ctx.enter_loop_condition())?;\n                let (ret, condition) = self.expression(&condition, ctx.enter_loop_condition())?;\n                let boolean = self.push_type(Type::Bool);")
m("twin-block-last-by-pop", ["C07"], "silent", TC,
  "        let (last, statements) = match statements.split_last() {\n            Some((Statement::StatementExpression { value, .. }, rest)) => (Some(value), rest),\n            _ => (None, statements.as_slice()),\n        };",
  "        let (last, statements) = match statements.split_last() {\n            Some((Statement::StatementExpression { value, .. }, init)) => (Some(value), init),\n            Some(_) | None => (None, &statements[..]),\n        };")
m("lower-last-statement-twice", ["C01", "C07"], ["RE-CHECK|IRCodeGen::expression_block|statement+expression"], IR,
  "            Some(Statement::StatementExpression { value, .. }) => {\n                block.pop();\n                Some(value)", "            Some(Statement::StatementExpression { value, .. }) => {\n                Some(value)")
m("minted-id-read-after-push", ["C07"], ["MINTED|TypeChecker::push_type|TyID(..)"], TC,
  "        let ty_id = TyID(self.types.len());\n        self.types.push(TypeNode {\n            ty,\n            parent: None,\n            size: 1,\n            constraints: BTreeMap::new(),\n        });\n        ty_id",
  "        self.types.push(TypeNode {\n            ty,\n            parent: None,\n            size: 1,\n            constraints: BTreeMap::new(),\n        });\n        TyID(self.types.len())")
m("minted-table-truncated-on-error", ["C07"], ["MINTED|types|never-shrinks"], TC,
  "    fn resolve_type(&mut self, ctx: TypeCtx, ty: &ResolverType) -> TypeResult<TyID> {\n        let t = self.inner_resolve_type(ctx, ty, &mut HashMap::new())?;",
  "    fn resolve_type(&mut self, ctx: TypeCtx, ty: &ResolverType) -> TypeResult<TyID> {\n        let before = self.types.len();\n        let t = match self.inner_resolve_type(ctx, ty, &mut HashMap::new()) {\n            Ok(t) => t,\n            Err(e) => {\n                self.types.truncate(before);\n                return Err(e);\n            }\n        };")
m("twin-minted-find-renamed-locals", ["C07"], "silent", TC,
  "        let mut root = a;\n        while let Some(TyID(next)) = self.types[root].parent {\n            root = next;\n        }", "        let mut top = a;\n        while let Some(TyID(up)) = self.types[top].parent {\n            top = up;\n        }\n        let root = top;")
m("ambient-label-from-address", ["C16"], ["AMBIENT|IRCodeGen::label|address-as-integer"], IR,
  "    fn label(&mut self) -> Label {\n        let i = self.counter;\n        self.counter += 1;\n        Label(i)", "    fn label(&mut self) -> Label {\n        self.counter += 1;\n        Label((&self.counter as *const usize as usize) % 100000 + self.counter)")
m("ambient-pointer-in-message", ["C16"], ["AMBIENT|"], TC,
  "                        \"`break` only works in loops\"\n", "                        \"`break` only works in loops ({:p})\",\n                        self\n")
MATH = "std/math.sy"
m("order-model-max-returns-smaller", ["C18"], ["ORDER-MODEL|max|agrees-with-the-model-on-every-order-cell", "ORDER-MODEL|clamp"], MATH,
  "    if a > b do a\n    else do b\n    end", "    if a < b do a\n    else do b\n    end")
m("order-model-clamp-bounds-swapped", ["C18"], ["ORDER-MODEL|clamp|agrees-with-the-model-on-every-order-cell"], MATH,
  "    min(hi, max(x, lo))", "    min(lo, max(x, hi))")
m("order-model-sign-of-zero", ["C18"], ["ORDER-MODEL|sign|agrees-with-the-model-on-every-order-cell"], PRE,
  "function sign(x)\n    if x > 0 then", "function sign(x)\n    if x >= 0 then")
m("twin-order-model-abs-by-subtraction", ["C18"], "silent", MATH,
  "    if n < 0 do\n        -n", "    if n < 0 do\n        0 - n")
m("twin-order-model-min-on-ties", ["C18"], "silent", MATH,
  "    if a < b do\n        a\n    else do\n        b\n    end", "    if a <= b do\n        a\n    else do\n        b\n    end")
m("twin-order-model-abs-of-zero", ["C18"], "silent", MATH,
  "    if n < 0 do\n        -n", "    if n <= 0 do\n        -n")
m("ambient-unsafe-uninitialised-counter", ["C16"], ["AMBIENT|IRCodeGen::label|unsafe-block"], IR,
  "    fn label(&mut self) -> Label {\n        let i = self.counter;", "    fn label(&mut self) -> Label {\n        let i = unsafe { std::ptr::read_volatile(&self.counter) };")
m("bracket-index-no-newline-mode", ["C14"], ["BRACKET-MODE|assignable_index|LeftBracket", "NEWLINE-MODE"], PPA,
  "    let (mut ctx, skip_newlines) = ctx.push_skip_newlines(true);\n\n    let expr =", "    let (mut ctx, skip_newlines) = ctx.push_skip_newlines(ctx.skip_newlines);\n\n    let expr =")
m("bracket-list-type-no-newline-mode", ["C14"], ["BRACKET-MODE|parse_type|LeftBracket", "NEWLINE-MODE"], PPA,
  "            let (ctx, skip_newlines) = ctx.skip(1).push_skip_newlines(true);\n            let (ctx, ty) = parse_type(ctx)?;", "            let (ctx, skip_newlines) = ctx.skip(1).push_skip_newlines(false);\n            let (ctx, ty) = parse_type(ctx)?;")
m("bracket-macro-pop-dropped", ["C14"], ["NEWLINE-FLAG"], PPA,
  "                        ctx.pop_skip_newlines(newlines).skip(1)", "                        { let _ = newlines; ctx.skip(1) }")
m("cursor-total-index-by-cursor", ["C07"], ["CURSOR-TOTAL"], PPA,
  "        self.tokens\n            .iter()\n            .skip(self.last_statement)\n            .take(self.curr.saturating_sub(self.last_statement))", "        self.tokens[self.last_statement.min(self.curr)..self.curr]\n            .iter()")
m("order-call-args-reversed-twice", ["C01"], ["ORDER-PRESERVED|Resolver::assignable|Expression::Call.args"], NR,
  "                for arg in parser_args.iter() {\n                    args.push(self.expression(arg)?);\n                }\n                E::Call { function, args, span }\n            }\n            AK::ArrowCall",
  "                for arg in parser_args.iter().rev() {\n                    args.push(self.expression(arg)?);\n                }\n                args.reverse();\n                E::Call { function, args, span }\n            }\n            AK::ArrowCall")
m("child-span-blob-field-at-blob", ["C15"], ["CHILD-SPAN|expression|Blob|expr-against-key"], TC,
  "                    self.unify(expr.span(), ctx, expr_ty, fields_and_types[key].1)?;", "                    self.unify(*span, ctx, expr_ty, fields_and_types[key].1)?;")
m("path-segments-without-slash", ["C12"], ["PATH-FORMS|path|segments-joined-by-slash"], PST,
  "        if !matches!(ctx.token(), T::Slash) {\n            break;\n        }\n        result.push_str(\"/\");\n        ctx = ctx.skip(1);", "        if matches!(ctx.token(), T::Slash) {\n            result.push_str(\"/\");\n            ctx = ctx.skip(1);\n        }")
m("defer-sub-roles-swapped-harmless-twin", ["C03"], "silent", TC,
  "                self.add_constraint(a, span, Constraint::Add(b));\n                self.add_constraint(b, span, Constraint::Add(a));", "                self.add_constraint(b, span, Constraint::Add(a));\n                self.add_constraint(a, span, Constraint::Add(b));")
m("lua-eq-remembers-last-pair", ["C19"], ["EQ|__TUPLE_META|__eq|function-of-its-operands"], PRE,
  "__TUPLE_META.__eq = function(a, b)\n", "__TUPLE_META.__eq = function(a, b)\n    __LAST_COMPARED = a\n")

# ---- round 8
SET = "std/set.sy"
m("bracket-index-no-newline-mode-2", ["C14"], ["BRACKET-MODE|assignable_index|LeftBracket", "NEWLINE-MODE"], PPA,
  "    let (mut ctx, skip_newlines) = ctx.push_skip_newlines(true);\n\n    let (_ctx, mut expr) = expression(ctx)?;", "    let (mut ctx, skip_newlines) = ctx.push_skip_newlines(ctx.skip_newlines);\n\n    let (_ctx, mut expr) = expression(ctx)?;")
m("index-parentheses-stripped-once", ["C14"], ["PARENS|parser|sylt_parser::assignable_index|form-test#1"], PPA,
  "    while let ExpressionKind::Parenthesis(inner) = expr.kind {\n        expr = *inner;\n    }\n    if matches!(expr.kind, ExpressionKind::Int(_)) {",
  "    if matches!(expr.kind, ExpressionKind::Int(_)) {")
m("decl-order-blob-sees-itself", ["C01", "C09"], ["DECL-ORDER|Resolver::statement|Definition|function-first"], NR,
  "                    without_parenthesis(value).kind,\n                    sylt_parser::ExpressionKind::Function { .. }\n                ) {\n                    // Function, push the var before!",
  "                    without_parenthesis(value).kind,\n                    sylt_parser::ExpressionKind::Function { .. } | sylt_parser::ExpressionKind::Blob { .. }\n                ) {\n                    // Function, push the var before!")
m("diverges-if-without-else", ["C02"], ["VALUE-PATH|diverges|expression|If"], TC,
  "                branches.last().map(|b| b.condition.is_none()).unwrap_or(false)\n                    && branches.iter().all(|b| diverges(&b.body))",
  "                branches.iter().all(|b| diverges(&b.body))")
m("diverges-case-else-ignored", ["C02"], ["VALUE-PATH|diverges|expression|Case"], TC,
  "                branches.iter().all(|b| diverges(&b.body))\n                    && fall_through.as_ref().map(|f| diverges(f)).unwrap_or(true)\n            }\n            _ => false,",
  "                branches.iter().all(|b| diverges(&b.body))\n            }\n            _ => false,")
m("diverges-any-branch", ["C02"], ["VALUE-PATH|diverges|expression|If"], TC,
  "                    && branches.iter().all(|b| diverges(&b.body))\n            }\n            Expression::Case",
  "                    && branches.iter().any(|b| diverges(&b.body))\n            }\n            Expression::Case")
m("diverges-definition-counts", ["C02"], ["VALUE-PATH|diverges|statement|Definition"], TC,
  "        Some(Statement::Block { statements, .. }) => diverges(statements),",
  "        Some(Statement::Block { statements, .. }) => diverges(statements),\n        Some(Statement::Definition { .. }) => true,")
m("twin-diverges-extra-condition", ["C02"], "silent", TC,
  "        Some(Statement::Block { statements, .. }) => diverges(statements),",
  "        Some(Statement::Block { statements, .. }) => !statements.is_empty() && diverges(statements),")
m("set-map-takes-any-callback", ["C04", "C18"], ["PURITY-DECL|set.set_map|callbacks-of-a-pu-external-are-pu"], SET,
  "set_map : pu<VA: CmpEqu, VB: CmpEqu> Set(*VA), (pu *VA -> *VB)", "set_map : pu<VA: CmpEqu, VB: CmpEqu> Set(*VA), (fn *VA -> *VB)")
m("list-find-no-early-return", ["C18"], ["SEARCH|list.list_find|stops-at-the-first-match"], PRE,
  "function list_find(l, p)\n    for _, x in pairs(l) do\n        if p(x) then\n            return __VARIANT({\"Just\", x})\n        end\n    end\n    return __VARIANT({\"None\", __NIL})",
  "function list_find(l, p)\n    local r = __VARIANT({\"None\", __NIL})\n    for _, x in pairs(l) do\n        if p(x) then\n            r = __VARIANT({\"Just\", x})\n        end\n    end\n    return r")
m("dict-update-in-place", ["C18"], ["VALUE-SEM|dict_update|store#1"], PRE,
  "function dict_update(dict, k, v)\n    dict[tostring(k)] = __TUPLE {k, v}\nend",
  "function dict_update(dict, k, v)\n    local e = dict[tostring(k)]\n    if e then e[2] = v else dict[tostring(k)] = __TUPLE {k, v} end\nend")
m("unreachable-message-names-file", ["C06"], ["LEX-SAFE|HaltAndCatchFire|message-made-of-fixed-text-and-numbers#1"], IR,
  "                vec![IR::HaltAndCatchFire(format!(\n                    \"Reached unreachable code on line {}\",\n                    span.line_start\n                ))]",
  "                vec![IR::HaltAndCatchFire(format!(\n                    \"Reached unreachable code on line {} ({:?})\",\n                    span.line_start, self.typechecker.file_to_namespace.keys().next()\n                ))]")
m("arrow-guarded-arm", ["C14"], ["ARROW|parser|call-takes-the-value-first"], PEX,
  "            Get(Assignable { kind: Call(callee, args), .. }) => Get(Assignable {\n                kind: ArrowCall(Box::new(lhs), callee, args),",
  "            Get(Assignable { kind: Call(callee, args), .. }) if !args.is_empty() => Get(Assignable {\n                kind: ArrowCall(Box::new(lhs), callee, args),")
m("register-types-first", ["C15"], ["DUP-ORDER|Resolver::insert_namespace_and_add_definitions|loop#1"], NR,
  "        let mut namespace = HashMap::new();\n        let mut errs = Vec::new();\n        for stmt in statements.iter() {",
  "        let mut namespace = HashMap::new();\n        let mut errs = Vec::new();\n        let mut statements: Vec<_> = statements.iter().collect();\n        statements.sort_by_key(|s| !matches!(s.kind, sylt_parser::StatementKind::Blob { .. }));\n        for stmt in statements.into_iter() {")
m("qualified-type-through-lookup", ["C12"], ["ISOLATION|ty_assignable|namespace-member-from-that-namespace-only"], NR,
  "                match self.lookup_global(new_namespace, &ty.name) {\n                    Some(Name::Name(r)) => Type::UserType(*r, Vec::new(), span),",
  "                match self.lookup(&ty.name, ty.span).ok().map(Name::Name).as_ref().or(self.lookup_global(new_namespace, &ty.name)) {\n                    Some(Name::Name(r)) => Type::UserType(*r, Vec::new(), span),")
m("unknown-callee-only-outside-pure", ["C08", "C11", "C12"], ["INFERENCE|TypeChecker::expression|catch-all=>error#1"], TC,
  "                if matches!(self.find_type(function), Type::Unknown) {\n                    let params",
  "                if matches!(self.find_type(function), Type::Unknown) && !ctx.inside_pure {\n                    let params")
m("quotient-back-constraint-dropped", ["C02"], ["VALUE-PATH|expression|Div|quotient-follows-dividend"], TC,
  "                self.add_constraint(a, span, Constraint::DivResOf(b));\n                Ok(())", "                Ok(())")
m("external-purity-only-for-constants", ["C04"], ["PURITY-UNIFY|outer_statement|external-fn-is-impure", "PURITY-UNIFY|outer_statement|functions-an-external", "PURITY-COPY|outer_statement"], TC,
  "                            if matches!(purity, Purity::Undefined) {\n                                self.find_node_mut(ty).ty =\n                                    Type::Function(args, ret, Purity::Impure);",
  "                            if matches!(purity, Purity::Undefined) && self.variables[*var].kind.immutable() {\n                                self.find_node_mut(ty).ty =\n                                    Type::Function(args, ret, Purity::Impure);")

# ---- rounds 11 and 12
m("tokenizer-text-trimmed", ["C15", "C17"], ["LINE|sylt_parser::tree|tokenizer-gets-the-text-as-read#1"], PPA,
  "        let tokens = string_to_tokens(file_id, &source);", "        let tokens = string_to_tokens(file_id, source.trim_start());")
m("conflict-marker-searched-in-line", ["C14"], ["COMMENT|raw-text-scan|looks-at-line-starts-only"], PPA,
  "        if line.starts_with(conflict_marker) {", "        if line.contains(conflict_marker) {")
m("output-written-when-changed", ["C20"], ["ATOMIC|output-always-written"], LIB,
  "            File::create(s)\n                .map_err(|e| vec![Error::IOError(Rc::new(e))])?\n                .write_all(&buf)\n                .map_err(|e| vec![Error::IOError(Rc::new(e))])?;",
  "            if std::fs::read(s).map_or(true, |old| old != buf) {\n                File::create(s)\n                    .map_err(|e| vec![Error::IOError(Rc::new(e))])?\n                    .write_all(&buf)\n                    .map_err(|e| vec![Error::IOError(Rc::new(e))])?;\n            }")
m("int-callback-unwraps", ["C07"], ["CENSUS|token-callback|Int|hands-failure-to-the-lexer"], TOKT,
  "#[regex(r\"[0-9]+\", |lex| lex.slice().parse())]", "#[regex(r\"[0-9]+\", |lex| lex.slice().parse::<i64>().unwrap())]")
m("tuple-div-zero-special", ["C19"], ["ARITH|tuple|__div|no-component-is-special"], PRE,
  "        for x = 1, #a, 1 do\n            out[x] = a[x] / b[x]\n        end",
  "        for x = 1, #a, 1 do\n            if b[x] == 0 then out[x] = 0 else out[x] = a[x] / b[x] end\n        end")
m("lone-slash-guard-dead", ["C07"], ["CENSUS|unwrap-premise|statement::statement|lone-slash-is-rejected-first"], PST,
  "                    if path == \"/\" {\n                        raise_syntax_error!(ctx, \"Using root requires alias\");",
  "                    if path.is_empty() {\n                        raise_syntax_error!(ctx, \"Using root requires alias\");")
m("missing-module-ends-the-visit", ["C20"], ["EXIT|tree|no-file-ends-the-visit"], PPA,
  "                Err(err) => {\n                    errors.push(err);\n                    continue;\n                }",
  "                Err(err) => return Err(vec![err]),")
m("dict-from-list-own-store", ["C18"], ["KEY-NORM|dict_from_list|stores-through-the-primitives"], PRE,
  "        dict_update(out, e[1], e[2])\n", "        out[tostring(e[1])] = __TUPLE {e[1], e[2]}\n")
m("open-purity-walk-skips-parameters", ["C04", "C08"], ["PURITY-COPY|has_open_purity|purity-walk|Function|all-components"], TC,
  "                Type::Function(args, ret, _) => {\n                    todo.extend(args);\n                    todo.push(ret);\n                }",
  "                Type::Function(_, ret, _) => todo.push(ret),")
m("open-purity-walk-stops-at-enums", ["C04"], ["PURITY-COPY|has_open_purity|purity-walk|reaches-every-component"], TC,
  "                Type::ExternBlob(_, _, fields, args, _)\n                | Type::Blob(_, _, fields, args)\n                | Type::Enum(_, _, fields, args) => {\n                    todo.extend(fields.values().map(|(_, ty)| *ty));\n                    todo.extend(args);\n                }\n                _ => {}\n            }\n        }\n        false",
  "                _ => {}\n            }\n        }\n        false")
m("open-purity-refused-in-pure", ["C08"], ["ANNOTATION-PERMISSIVE|TypeChecker::expression|call|open-purity-is-settled-like-an-unknown-callee"], TC,
  "                        if ctx.inside_pure && matches!(purity, Purity::Undefined) {", "                        if false && matches!(purity, Purity::Undefined) {")
m("trailing-if-not-returned", ["C14"], ["IMPLICIT-RET|every-trailing-expression"], IR,
  "                    Some(S::StatementExpression { value, .. }) => {\n                        let (ir, ret) = self.expression(&value, ctx);\n                        [ir, vec![IR::Return(ret)]].concat()",
  "                    Some(S::StatementExpression { value, .. }) if !matches!(value, E::If { .. }) => {\n                        let (ir, ret) = self.expression(&value, ctx);\n                        [ir, vec![IR::Return(ret)]].concat()")
m("type-cycle-members-filtered", ["C20"], ["EXIT|Compiler::compile|one-error-per-cycle-member"], COMP,
  "                statements.iter().for_each(|statement| {", "                statements.iter().filter(|s| !matches!(s, Statement::Blob { .. })).for_each(|statement| {")

for w in W:
    with open(os.path.join(OUT, w["name"] + ".json"), "w") as fh:
        json.dump(w, fh, indent=1)
print(len(W), "witness mutants written")
