#!/usr/bin/env python3
"""Regression over every seeded breaking change, in parallel and without touching /repo: each change is applied to a
scratch copy of /repo's working tree (under /var/tmp, removed afterwards), all registered quick checks are run against the
copy (VERIF_REPO), and the change must make the check of its own property fail.  Changes marked `obsolete` in meta.json
(neutralised by a later fix) must raise no alarm.

usage: tools/run_all_seeded.py [-j N] [seeded/<id> ...]        exit 0 iff nothing is MISSED / no obsolete ALARM"""
import concurrent.futures as cf
import json, os, shutil, subprocess, sys, tempfile
HERE = os.path.dirname(os.path.dirname(os.path.abspath(__file__)))
ALL = ["C%02d" % i for i in range(1, 21)]


def run_one(d):
    meta = json.load(open(os.path.join(d, "meta.json")))
    own = meta.get("property")
    tmp = tempfile.mkdtemp(prefix="seedrun-", dir="/var/tmp")
    try:
        src = os.path.join(tmp, "repo")
        subprocess.run(["rsync", "-a", "--exclude", "/target", "--exclude", ".git", "/repo/", src + "/"], check=True)
        r = subprocess.run(["git", "apply", "-v", os.path.abspath(os.path.join(d, "patch.diff"))], cwd=src, stdout=subprocess.PIPE, stderr=subprocess.STDOUT, text=True)
        if r.returncode != 0:
            return d, own, meta, None, "patch does not apply: " + r.stdout[-300:]
        if "offset" in r.stdout:
            # a hunk that moved may have landed in a sibling with the same context (it did once: mul instead of div)
            print("NOTE    %s applies with an offset - check that it still changes the intended function: %s" % (
                os.path.basename(d.rstrip("/")), "; ".join(l.strip() for l in r.stdout.split("\n") if "offset" in l)))
        env = dict(os.environ, VERIF_REPO=src, VERIF_EVIDENCE_DIR=os.path.join(tmp, "ev"), VERIF_CACHE=os.path.join(tmp, "cache"), VERIF_TMP=tmp)
        fired = {}
        for p in ALL:
            r = subprocess.run([os.path.join(HERE, "check"), p, "--tier", "quick"], cwd=HERE, env=env, stdout=subprocess.PIPE, stderr=subprocess.STDOUT, text=True)
            keys = [l.strip()[5:] for l in r.stdout.split("\n") if l.strip().startswith("rule=")]
            if r.returncode == 1:
                fired[p] = keys
            elif r.returncode != 0:
                fired[p] = ["INFRA exit %d: %s" % (r.returncode, r.stdout[-300:])]
        return d, own, meta, fired, None
    finally:
        shutil.rmtree(tmp, ignore_errors=True)


def main():
    args = sys.argv[1:]
    jobs = 8
    if "-j" in args:
        i = args.index("-j")
        jobs = int(args[i + 1])
        del args[i:i + 2]
    dirs = args or sorted(os.path.join(HERE, "seeded", x) for x in os.listdir(os.path.join(HERE, "seeded"))
                          if os.path.exists(os.path.join(HERE, "seeded", x, "patch.diff")))
    bad = 0
    with cf.ThreadPoolExecutor(jobs) as ex:
        for d, own, meta, fired, err in ex.map(run_one, dirs):
            name = os.path.basename(d.rstrip("/"))
            if err:
                print("ERROR   %s: %s" % (name, err)); bad = 1; continue
            infra = [p for p, k in fired.items() if any(x.startswith("INFRA") for x in k)]
            if meta.get("obsolete"):
                if fired:
                    print("ALARM   %s is marked obsolete but checks fire: %s" % (name, json.dumps(fired))); bad = 1
                else:
                    print("silent  %s (obsolete: neutralised by a later fix; must not raise an alarm)" % name)
                continue
            if meta.get("undecided"):
                # a change whose effect is outside what the static rules decide (recorded as such in DESIGN §8.1): reported, not failed
                print("%s %s (recorded as outside what the rules decide: %s)" % ("caught " if own in fired else "undecid", name, meta["undecided"][:90]))
                continue
            if not fired:
                print("MISSED  %s" % name); bad = 1
            elif own in fired and own not in infra:
                print("caught  %s by %s: %s" % (name, " ".join(sorted(fired)), "; ".join(fired[own][:3])))
            else:
                print("caught* %s by %s (not by its own property %s): %s" % (name, " ".join(sorted(fired)), own,
                                                                              "; ".join("%s %s" % (p_, k_[0]) for p_, k_ in sorted(fired.items())))); bad = 1
            if infra:
                print("  INFRA error in %s: %s" % (infra, fired[infra[0]]))
    return bad


if __name__ == "__main__":
    sys.exit(main())
