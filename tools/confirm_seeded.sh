#!/bin/bash
# Confirms a seeded change in a fresh scratch worktree of /repo's HEAD:
#   demo passes without the patch; with the patch: builds, the 158-test baseline is unchanged, demo fails.
# usage: tools/confirm_seeded.sh seeded/<id>     (the demo is <id>/demo.sh, run as <worktree>/_seed/demo.sh)
set -u
D=$(realpath "$1"); ID=$(basename "$D"); W=/tmp/confirm-$ID
export CARGO_TARGET_DIR=${CONFIRM_TARGET:-/var/tmp/confirm-target} CARGO_NET_OFFLINE=true
git -C /repo worktree remove --force $W >/dev/null 2>&1; rm -rf $W
git -C /repo worktree add --detach $W HEAD >/dev/null 2>&1 || { echo "worktree failed"; exit 2; }
# seeds written as one of two (round 5) keep their layout <worktree>/_seed/A|B/: the demo names that directory
SUB=""
if grep -qs '_seed/B' $D/*.sh; then SUB=/B; elif grep -qs '_seed/A\|dirname "\$0")/\.\./\.\.' $D/*.sh; then SUB=/A; fi
mkdir -p $W/_seed$SUB && cp -r $D/* $W/_seed$SUB/ && chmod +x $W/_seed$SUB/*.sh 2>/dev/null
ln -sfn $CARGO_TARGET_DIR $W/target; cd $W
(cargo build --offline -q 2>/dev/null) || { echo "baseline build failed"; exit 2; }
timeout 600 ./_seed$SUB/demo.sh > /var/tmp/confirm-$ID.without.log 2>&1; without=$?
git apply _seed$SUB/patch.diff || { echo "PATCH DOES NOT APPLY"; git -C /repo worktree remove --force $W; exit 1; }
(cargo build --offline -q 2>/dev/null) || { echo "BUILD FAILS WITH PATCH"; git -C /repo worktree remove --force $W; exit 1; }
VERIF_REPO=$W /verif/tools/baseline.sh > /var/tmp/confirm-$ID.tests.log 2>&1; tests=$?
timeout 600 ./_seed$SUB/demo.sh > /var/tmp/confirm-$ID.with.log 2>&1; with=$?
cd /; git -C /repo worktree remove --force $W; rm -rf $W
echo "demo without patch: exit $without (want 0) | tests with patch: $(tail -1 /var/tmp/confirm-$ID.tests.log) | demo with patch: exit $with (want non-zero)"
if [ $without -eq 0 ] && [ $tests -eq 0 ] && [ $with -ne 0 ]; then echo CONFIRMED; exit 0; else echo NOT-CONFIRMED; tail -n 5 /var/tmp/confirm-$ID.without.log; tail -n 5 /var/tmp/confirm-$ID.with.log; exit 1; fi
