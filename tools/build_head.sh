#!/bin/bash
# builds the sylt binary of /repo's HEAD commit (not the working tree) into /var/tmp/sylt-head
set -e
W=/var/tmp/sylt-headwt
rm -rf $W; git -C /repo worktree add --detach $W HEAD >/dev/null 2>&1
(cd $W && CARGO_TARGET_DIR=/var/tmp/sylt-head-target cargo build --offline -q -p sylt 2>/dev/null)
cp /var/tmp/sylt-head-target/debug/sylt /var/tmp/sylt-head
git -C /repo worktree remove --force $W
echo built /var/tmp/sylt-head from $(git -C /repo rev-parse --short HEAD)
