#!/bin/bash
# Runs sylt's own test suite (guard off; there are no hooks) and checks it against the pinned baseline:
# 158 stable tests pass, the only failing test is sylt::test::program_tests (needs `lua`).
cd "${VERIF_REPO:-/repo}" || exit 2
out=$(CARGO_NET_OFFLINE=true cargo test --workspace --no-fail-fast --offline 2>&1)
passed=$(echo "$out" | grep -E "^test .* \.\.\. ok$" | wc -l)
failed=$(echo "$out" | grep -E "^test .* \.\.\. FAILED$" | sed 's/^test //; s/ \.\.\. FAILED//' | sort -u | tr '\n' ' ')
echo "passed=$passed failed=[$failed]"
if [ "$passed" -ge 158 ] && { [ "$failed" = "test::program_tests " ] || [ -z "$failed" ]; }; then
  echo "BASELINE OK"; exit 0
fi
echo "$out" | tail -40
echo "BASELINE MISMATCH"; exit 1
