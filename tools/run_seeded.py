#!/usr/bin/env python3
"""Run the registered checks against a seeded breaking change.

usage: tools/run_seeded.py seeded/<id> [C01 C02 ...]
Applies seeded/<id>/patch.diff to /repo (git apply), runs the checks (evidence goes to a scratch directory, not to
/verif/evidence), prints which violations fire, and undoes the change (git -C /repo checkout -- .) straight afterwards."""
import json, os, subprocess, sys, tempfile, shutil
HERE = os.path.dirname(os.path.dirname(os.path.abspath(__file__)))
d = sys.argv[1]
props = sys.argv[2:] or ["C%02d" % i for i in range(1, 21)]
patch = os.path.abspath(os.path.join(d, "patch.diff"))
st = subprocess.run(["git", "-C", "/repo", "status", "--porcelain", "--untracked-files=no"], stdout=subprocess.PIPE, text=True).stdout.strip()
if st:
    sys.exit("refusing: /repo has uncommitted changes:\n" + st)
r = subprocess.run(["git", "-C", "/repo", "apply", patch])
if r.returncode != 0:
    sys.exit("patch does not apply")
ev = tempfile.mkdtemp(prefix="seeded-ev-", dir="/var/tmp")
fired = {}
try:
    for p in props:
        env = dict(os.environ, VERIF_EVIDENCE_DIR=ev)
        r = subprocess.run([os.path.join(HERE, "check"), p, "--tier", "quick"], cwd=HERE, env=env, stdout=subprocess.PIPE, stderr=subprocess.STDOUT, text=True)
        keys = [l.strip() for l in r.stdout.split("\n") if l.strip().startswith("rule=")]
        if r.returncode == 1:
            fired[p] = keys
        elif r.returncode != 0:
            fired[p] = ["INFRA exit %d: %s" % (r.returncode, r.stdout[-300:])]
finally:
    subprocess.run(["git", "-C", "/repo", "checkout", "--", "."])
    shutil.rmtree(ev, ignore_errors=True)
print(json.dumps(fired, indent=1))
