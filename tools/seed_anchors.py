#!/usr/bin/env python3
"""Which functions a patch changes (file:function per hunk), computed against a tree the patch applies to.
   seed_anchors.py record            - writes `anchors` into every seeded/*/meta.json (only run after reviewing the list)
   seed_anchors.py check [dirs..]    - compares with the recorded anchors; prints ANCHOR-MISMATCH lines, exit 1 if any
A patch that still applies after the code moved can land in a neighbouring function with identical context lines
(add/sub/mul/div of the type checker): it then no longer is the change that was confirmed."""
import json
import os
import re
import sys

BASE = os.path.join(os.path.dirname(os.path.dirname(os.path.abspath(__file__))), "seeded")
REPO = os.environ.get("VERIF_REPO", "/repo")


def enclosing(path, line):
    try:
        src = open(os.path.join(REPO, path)).read().split("\n")
    except OSError:
        return "?"
    for i in range(min(line, len(src)) - 1, -1, -1):
        m = re.match(r"\s*(pub(\([a-z]+\))? )?fn (\w+)", src[i])
        if m:
            return m.group(3)
        m = re.match(r"(__\w+(\.\w+)?) = function|(?:local )?function ([\w.]+)", src[i])
        if m:
            return m.group(1) or m.group(3)
        m = re.match(r"(?:pub )?(struct|enum|impl|macro_rules!) ?(\w+)", src[i])
        if m:
            return m.group(1) + " " + m.group(2)
    return "?"


def anchors(patch):
    out = set()
    txt = open(patch).read()
    for f in re.split(r"^diff --git", txt, flags=re.M)[1:]:
        fm = re.search(r"\+\+\+ b/(.*)", f)
        if not fm:
            continue
        fn = fm.group(1).strip()
        for h in re.finditer(r"^@@ -(\d+)(?:,\d+)? \+(\d+)(?:,\d+)? @@.*\n((?:[ +\-\\].*\n?)*)", f, flags=re.M):
            ln = int(h.group(1))
            for bl in h.group(3).split("\n"):
                if bl.startswith("-") or bl.startswith("+"):
                    out.add("%s:%s" % (os.path.basename(fn), enclosing(fn, ln)))
                    break
                if bl.startswith(" "):
                    ln += 1
    return sorted(out)


def main():
    mode = sys.argv[1] if len(sys.argv) > 1 else "check"
    dirs = sys.argv[2:] or [os.path.join(BASE, d) for d in sorted(os.listdir(BASE))]
    bad = 0
    for d in dirs:
        p = os.path.join(d, "patch.diff")
        mp = os.path.join(d, "meta.json")
        if not os.path.exists(p) or not os.path.exists(mp):
            continue
        m = json.load(open(mp))
        if m.get("obsolete"):
            continue
        a = anchors(p)
        if mode == "record":
            # line numbers mean something only for a patch that applies exactly where it says: otherwise the function found at
            # those lines is a neighbour (this once overwrote every anchor of the patches that had drifted)
            import subprocess
            r = subprocess.run(["git", "-C", REPO, "apply", "--check", "-v", p], stdout=subprocess.PIPE, stderr=subprocess.STDOUT, text=True)
            if r.returncode != 0 or "offset" in r.stdout:
                print("NOT RECORDED %s: the patch does not apply exactly to the tree (run refresh_seeds.py first)" % os.path.basename(d))
                continue
            m["anchors"] = a
            json.dump(m, open(mp, "w"), indent=1)
        else:
            want = m.get("anchors")
            if want is not None and want != a:
                bad += 1
                print("ANCHOR-MISMATCH %s: recorded %s, the patch now changes %s" % (os.path.basename(d), want, a))
    if mode != "record":
        print("anchors checked: %d mismatches" % bad)
    return 1 if bad else 0


if __name__ == "__main__":
    sys.exit(main())
