#!/usr/bin/env python3
"""Behaviour-preserving changes must raise no alarm: applies each given patch to a scratch copy of /repo's working tree and
runs all registered quick checks against the copy.  usage: tools/run_twins.py [-j N] patch.diff ...   (exit 0 iff all silent)"""
import concurrent.futures as cf
import json, os, shutil, subprocess, sys, tempfile
HERE = os.path.dirname(os.path.dirname(os.path.abspath(__file__)))
ALL = ["C%02d" % i for i in range(1, 21)]


def run_one(patch):
    tmp = tempfile.mkdtemp(prefix="twinrun-", dir="/var/tmp")
    try:
        src = os.path.join(tmp, "repo")
        subprocess.run(["rsync", "-a", "--exclude", "/target", "--exclude", ".git", "/repo/", src + "/"], check=True)
        r = subprocess.run(["git", "apply", os.path.abspath(patch)], cwd=src, stdout=subprocess.PIPE, stderr=subprocess.STDOUT, text=True)
        if r.returncode != 0:
            return patch, None, "patch does not apply: " + r.stdout[-200:]
        env = dict(os.environ, VERIF_REPO=src, VERIF_EVIDENCE_DIR=os.path.join(tmp, "ev"), VERIF_CACHE=os.path.join(tmp, "cache"), VERIF_TMP=tmp)
        fired = {}
        for p in ALL:
            r = subprocess.run([os.path.join(HERE, "check"), p, "--tier", "quick"], cwd=HERE, env=env, stdout=subprocess.PIPE, stderr=subprocess.STDOUT, text=True)
            keys = [l.strip()[5:] for l in r.stdout.split("\n") if l.strip().startswith("rule=")]
            if r.returncode == 1:
                fired[p] = keys
            elif r.returncode != 0:
                fired[p] = ["INFRA exit %d: %s" % (r.returncode, r.stdout[-300:])]
        return patch, fired, None
    finally:
        shutil.rmtree(tmp, ignore_errors=True)


def main():
    args = sys.argv[1:]
    jobs = 8
    if "-j" in args:
        i = args.index("-j"); jobs = int(args[i + 1]); del args[i:i + 2]
    bad = 0
    with cf.ThreadPoolExecutor(jobs) as ex:
        for patch, fired, err in ex.map(run_one, args):
            if err:
                print("SKIP    %s: %s" % (patch, err.strip().split("\n")[0])); continue
            if fired:
                bad = 1
                print("ALARM   %s: %s" % (patch, json.dumps(fired)))
            else:
                print("silent  %s" % patch)
    return bad


if __name__ == "__main__":
    sys.exit(main())
