#!/usr/bin/env python3
"""debug aid: list the obligations of a property whose key or rule matches a pattern.  usage: tools/obs.py C02 <regex>"""
import importlib, os, re, sys
HERE = os.path.dirname(os.path.dirname(os.path.abspath(__file__)))
sys.path.insert(0, os.path.join(HERE, "rules"))
import core, facts
prop, pat = sys.argv[1].upper(), re.compile(sys.argv[2] if len(sys.argv) > 2 else ".")
F = facts.load()
rep = core.Report(prop, "quick")
importlib.import_module(prop.lower()).run(F, rep, "quick")
for o in rep.obs:
    if pat.search(o["rule"] + " " + o["key"]):
        print("%s %s key=%s\n     %s  [%s]" % ("ok  " if o["ok"] else "FAIL", o["rule"], o["key"], o["text"][:300], o["where"]))
