#!/usr/bin/env python3
"""Prepares a seeding round: one scratch git worktree of /repo per property under <dir> (outside /repo and /verif) with a
_TASK.md that contains only the property text, build instructions and the `needs` lines of earlier seeded changes (so that
mechanisms are not repeated).  usage: make_seed_tasks.py /tmp/s6 [C01 C02 ..]"""
import glob
import json
import os
import subprocess
import sys

root = sys.argv[1]
only = sys.argv[2:]
os.makedirs(root, exist_ok=True)
props = {json.loads(l)["id"]: json.loads(l) for l in open("/verif/properties.jsonl")}
by = {}
for d in sorted(glob.glob("/verif/seeded/*/meta.json")):
    m = json.load(open(d))
    by.setdefault(m["property"], []).append(m.get("needs", ""))
for pid, p in sorted(props.items()):
    if only and pid not in only:
        continue
    w = os.path.join(root, pid)
    subprocess.run(["git", "-C", "/repo", "worktree", "add", "--detach", w, "HEAD"], stdout=subprocess.DEVNULL, stderr=subprocess.DEVNULL)
    used = "\n".join("  - " + x for x in by.get(pid, []) if x)
    open(w + "/_TASK.md", "w").write(f'''# Task: write TWO subtle breaking changes for one property of the sylt compiler

You are in `{w}`, a scratch git worktree of sylt-lang (a small statically typed language whose Rust compiler - tokenizer,
parser, name resolution, unification type checker, IR - emits Lua). Work ONLY inside this directory. Never read or write
`/repo` or `/verif`. There is no network and **no Lua interpreter** on this machine, so emitted Lua can only be inspected as
text (grep, or your own small script), never run.

Build: `CARGO_NET_OFFLINE=true cargo build --offline` (about a minute the first time).
Tests: `CARGO_NET_OFFLINE=true cargo test --workspace --no-fail-fast --offline` - in the unchanged tree exactly 158 tests pass and
one (`sylt::test::program_tests`) fails because it needs Lua; that is the baseline.
Compile a program: `cargo run -q --offline -p sylt -- -o out.lua prog.sy` (exit status 0 = accepted; `-o -` prints the Lua).
Example programs: `tests/**/*.sy`; language guide: `docs/guide.adoc`; the runtime library is `sylt-compiler/src/preamble.lua`
and `std/*.sy`.

## The property ({pid}: {p.get('title','')})

{p['statement']}

(Quantifier: {json.dumps(p.get('quantifier',{}).get('text',''))})

## What to deliver

**Two independent changes** (call them A and B) to the compiler's source (Rust, `preamble.lua` or `std/*.sy` - whichever
implements the property), each of which **breaks this property** while the workspace **still compiles and all 158 baseline
tests still pass**, each with a **demonstration** that fails with the change and passes without it. A and B must use
*different mechanisms in different functions* (ideally different files or different clauses of the property).

Each change must be *subtle*: it must need something specific to manifest - an unusual input, a multi-step sequence of
operations, a particular nesting or ordering, or two cooperating sites that each look fine alone - not something that
ordinary use (the programs under `tests/`) would expose at once. It should look like a plausible slip, an incomplete
refactoring, an over-eager optimisation or a plausible "simplification" a maintainer could make, ideally 1-15 changed lines.
Do not break unrelated things. Prefer places in the code that look correct to a quick reviewer after the change.

Mechanisms already used by earlier changes for this property - **pick different mechanisms and different places in the
code** for both A and B:
{used}

Put change A in `{w}/_seed/A/` and change B in `{w}/_seed/B/`, each directory with:
- `patch.diff`: `git diff` of the source change only (must apply alone to the unchanged worktree with `git apply`).
- `demo.sh`: run from the worktree root as `./_seed/A/demo.sh` (resp. `B`); exit 0 when the property holds on the demo's
  inputs, non-zero when it is violated. It must exit 0 on the unchanged tree and non-zero with that patch applied. It may
  build and run the `sylt` binary via cargo (`cargo run -q --offline -p sylt -- ...`) and inspect exit status, diagnostics and
  the emitted Lua text; include a control input that still behaves correctly with the patch. Input programs go next to it
  (refer to them as `_seed/A/<file>`).
- `NOTES.md`: what the change is, which clause of the property it breaks, what exactly is needed for it to manifest, one
  line `SLUG: <four-to-six-word-kebab-case-name>` and one line `NEEDS: <one sentence>`, and the commands you ran with results
  (tests with the patch: 158 pass; demo without/with the patch).

Verify everything yourself for each change separately: baseline demo passes, patched tree builds, the 158 tests pass with the
patch, the demo fails with the patch. When you are done leave the worktree's tracked files **unchanged**
(`git checkout -- .`), with `_seed/` present.

If, while exploring, you notice that the *unchanged* compiler already violates the property for some input, add a section
"Aside: baseline violations" to `_seed/A/NOTES.md` with a minimal reproducer and what happens - but still deliver both changes.

Reply with a short summary per change: the file/function changed, what it needs to manifest, and your verification results.
''')
print(sorted(os.listdir(root)))
