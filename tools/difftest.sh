#!/bin/bash
# Validation aid for `fix:` commits (NOT a registered check; it executes sylt):
# compile every tests/**/*.sy with the pinned-commit binary and with the working-tree binary and
# compare exit status, diagnostics and emitted Lua.  usage: difftest.sh [base-rev]
set -u
REPO=${VERIF_REPO:-/repo}
BASE_REV=${1:-307a8f7}
W=/var/tmp/sylt-difftest
mkdir -p $W
if [ -n "${BASE_BIN:-}" ]; then mkdir -p $W/base; cp "$BASE_BIN" $W/base/sylt; BASE_KEEP=1; fi
if [ ! -x $W/base/sylt ]; then
  rm -rf $W/basewt; git -C $REPO worktree add --detach $W/basewt $BASE_REV >/dev/null 2>&1 || exit 2
  (cd $W/basewt && CARGO_TARGET_DIR=$W/base-target cargo build --offline -q -p sylt 2>/dev/null) || exit 2
  mkdir -p $W/base && cp $W/base-target/debug/sylt $W/base/sylt
  git -C $REPO worktree remove --force $W/basewt; rm -rf $W/base-target
fi
(cd $REPO && CARGO_TARGET_DIR=$W/cur-target cargo build --offline -q -p sylt 2>/dev/null) || { echo "build failed"; exit 2; }
cp $W/cur-target/debug/sylt $W/cur-sylt
same=0; diff=0; n=0; bad=0; badold=0
for f in $(cd $REPO && find tests -name '*.sy' | sort); do
  n=$((n+1))
  (cd $REPO && timeout 20 $W/base/sylt -o $W/a.lua $f > $W/a.out 2>&1; echo "exit=$?" >> $W/a.out)
  (cd $REPO && timeout 20 $W/cur-sylt -o $W/b.lua $f > $W/b.out 2>&1; echo "exit=$?" >> $W/b.out)
  if [ -n "${LUACHECK:-}" ] && [ -f $W/b.lua ]; then cp $W/b.lua $W/b_raw.lua; /verif/tools/luacheck.py $W/b_raw.lua || { bad=$((bad+1)); echo "UNPARSABLE(new) $f"; }; fi
  if [ -n "${LUACHECK:-}" ] && [ -f $W/a.lua ]; then /verif/tools/luacheck.py $W/a.lua >/dev/null || { badold=$((badold+1)); }; fi
  if [ -n "${NORMALIZE:-}" ] && [ -f $W/b.lua ]; then sed -E -i "$NORMALIZE" $W/b.lua; [ -f $W/a.lua ] && sed -E -i "$NORMALIZE" $W/a.lua; fi
  if cmp -s $W/a.out $W/b.out && { cmp -s $W/a.lua $W/b.lua || ! grep -q "exit=0" $W/a.out; }; then same=$((same+1)); else diff=$((diff+1)); echo "DIFF $f"; fi
  rm -f $W/a.lua $W/b.lua
done
echo "programs=$n same=$same different=$diff unparsable_new=$bad unparsable_old=$badold"
