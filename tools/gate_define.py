#!/usr/bin/env python3
"""Validation gate for the `declare result temporaries` repair (NOT a registered check; it runs sylt).
For every tests/**/*.sy: old binary vs new binary must agree on exit status and diagnostics; the emitted Lua must
(i) parse with rules/luaparse.py, (ii) be identical after dropping `local V = nil` declarations, turning
`local V = true|false` into plain assignments and renaming V<n> by first occurrence, (iii) keep every Lua function
below 200 local declarations."""
import os, re, subprocess, sys
HERE = os.path.dirname(os.path.dirname(os.path.abspath(__file__)))
sys.path.insert(0, os.path.join(HERE, "rules"))
import luaparse
old, new, repo = sys.argv[1], sys.argv[2], sys.argv[3]

def run(binary, f):
    out = "/var/tmp/gate_out.lua"
    if os.path.exists(out): os.unlink(out)
    r = subprocess.run([binary, "-o", out, f], cwd=repo, stdout=subprocess.PIPE, stderr=subprocess.STDOUT, text=True, timeout=60)
    txt = open(out).read() if os.path.exists(out) and r.returncode == 0 else None
    return r.returncode, r.stdout, txt

def canon(txt):
    body = txt[txt.index("-- End Sylt preamble"):]
    lines = []
    for l in body.split("\n"):
        if re.fullmatch(r"\s*local V\d+ = nil", l): continue
        l = re.sub(r"^(\s*)local (V\d+) = (true|false)$", r"\1\2 = \3", l)
        if not l.strip(): continue
        lines.append(l.strip())
    m = {}
    def ren(mo):
        return m.setdefault(mo.group(0), "v%d" % len(m))
    return [re.sub(r"\bV\d+\b", ren, l) for l in lines]

def max_locals(ast):
    worst = 0
    def count(block):
        n = 0
        for s in block["stmts"]:
            if s["k"] in ("Local", "LocalFunction"): n += len(s.get("names", [1]))
            for sub in ("body",):
                if isinstance(s.get(sub), dict) and s[sub].get("k") == "Block" and s["k"] not in ("LocalFunction",): n += count(s[sub])
            if s["k"] == "If":
                for c, b in s["clauses"]: n += count(b)
                if s.get("els"): n += count(s["els"])
        return n
    for n in luaparse.walk(ast):
        if n.get("k") == "Function":
            worst = max(worst, len(n["params"]) + count(n["body"]))
    return max(worst, count(ast))

files = sorted(os.path.join(dp, f) for dp, _, fs in os.walk(os.path.join(repo, "tests")) for f in fs if f.endswith(".sy"))
bad = 0; n = 0; worst = 0; differ = []
for f in files:
    rel = os.path.relpath(f, repo)
    a = run(old, rel); b = run(new, rel)
    n += 1
    if a[0] != b[0] or a[1] != b[1]:
        bad += 1; print("PARITY", rel); continue
    if b[2] is None: continue
    try:
        ast = luaparse.parse(b[2])
    except luaparse.LuaSyntaxError as e:
        bad += 1; print("SYNTAX", rel, e); continue
    worst = max(worst, max_locals(ast))
    ca, cb = canon(a[2]), canon(b[2])
    if ca != cb:
        differ.append(rel)
        if len(differ) <= 5:
            import difflib
            print("DIFFER", rel); print("\n".join(list(difflib.unified_diff(ca, cb, lineterm="", n=1))[:24]))
print("programs=%d problems=%d canon-different=%d max-locals-per-function=%d" % (n, bad, len(differ), worst))
