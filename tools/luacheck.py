#!/usr/bin/env python3
"""Validation aid: parse emitted Lua files with rules/luaparse.py (no Lua interpreter exists here)."""
import os, sys
sys.path.insert(0, os.path.join(os.path.dirname(os.path.dirname(os.path.abspath(__file__))), "rules"))
import luaparse
bad = 0
for p in sys.argv[1:]:
    try:
        luaparse.parse(open(p, encoding="utf-8").read())
    except luaparse.LuaSyntaxError as e:
        bad += 1
        print("SYNTAX %s: %s" % (p, e))
sys.exit(1 if bad else 0)
