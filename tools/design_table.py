#!/usr/bin/env python3
"""Rewrites the `rules` and `obligations` columns of DESIGN.md §4 from /verif/evidence/*.json (run after all 20 checks)."""
import json
import re

p = "/verif/DESIGN.md"
out = []
for line in open(p).read().split("\n"):
    m = re.match(r"\| (C\d\d) \| (.*?) \| ([A-Za-z0-9, \-']+) \| (\d+[^|]*) \|$", line)
    if m:
        pid = m.group(1)
        cov = json.load(open("/verif/evidence/%s.json" % pid))["coverage"]
        rules = sorted(r for r in cov["per_rule"] if r not in ("FLOOR", "ANCHOR"))
        kf = len(cov.get("known_findings", []))
        n = "%d" % cov["obligations"] + (" (%d known finding%s)" % (kf, "" if kf == 1 else "s") if kf else "")
        line = "| %s | %s | %s | %s |" % (pid, m.group(2), ", ".join(rules), n)
    out.append(line)
open(p, "w").write("\n".join(out))
