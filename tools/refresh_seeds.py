#!/usr/bin/env python3
"""Regenerates seeded patches that apply to /repo's tree only with an offset (same change, fresh context).  A patch whose
changed lines end up in another function than the recorded anchor (meta.json `anchors`, see seed_anchors.py) is NOT
rewritten: identical context in a neighbouring function would silently turn it into a different change."""
import os, subprocess, shutil, json, tempfile, sys
sys.path.insert(0, os.path.dirname(os.path.abspath(__file__)))
import seed_anchors
base='/verif/seeded'
for d in sorted(os.listdir(base)):
    p=os.path.join(base,d,'patch.diff')
    if not os.path.exists(p): continue
    tmp=tempfile.mkdtemp(prefix='refresh-',dir='/var/tmp')
    try:
        src=os.path.join(tmp,'r')
        subprocess.run(['rsync','-a','--exclude','/target','--exclude','.git','/repo/',src+'/'],check=True)
        subprocess.run(['git','init','-q'],cwd=src); subprocess.run(['git','add','-A'],cwd=src,stdout=subprocess.DEVNULL); subprocess.run(['git','-c','user.email=a@b','-c','user.name=x','commit','-qm','base'],cwd=src)
        r=subprocess.run(['git','apply','-v',p],cwd=src,stdout=subprocess.PIPE,stderr=subprocess.STDOUT,text=True)
        if r.returncode!=0:
            print('NOAPPLY',d); continue
        if 'offset' not in r.stdout: continue
        new=subprocess.run(['git','diff'],cwd=src,stdout=subprocess.PIPE,text=True).stdout
        want=json.load(open(os.path.join(base,d,'meta.json'))).get('anchors')
        tmp_patch=os.path.join(tmp,'new.diff'); open(tmp_patch,'w').write(new)
        subprocess.run(['git','checkout','-q','--','.'],cwd=src)
        seed_anchors.REPO=src
        got=seed_anchors.anchors(tmp_patch)
        if want is not None and got!=want:
            print('ANCHOR-MISMATCH',d,'recorded',want,'offset application changes',got,'- not rewritten, re-create by hand'); continue
        orig=os.path.join(base,d,'patch.orig.diff')
        if not os.path.exists(orig): shutil.copy(p,orig)
        open(p,'w').write(new)
        mp=os.path.join(base,d,'meta.json'); m=json.load(open(mp))
        m.setdefault('rebased','patch regenerated on the current tree (same change, refreshed context; the original is kept as patch.orig.diff)')
        json.dump(m,open(mp,'w'),indent=1)
        print('refreshed',d)
    finally:
        shutil.rmtree(tmp,ignore_errors=True)
