#!/bin/bash
# Validation aid for a pending `fix:` in /repo's working tree (NOT a registered check; it executes sylt):
# baseline tests + compile-only differential of the working tree against HEAD over tests/**/*.sy
cd "$(dirname "$0")/.."
tools/build_head.sh | tail -1
BASE_BIN=/var/tmp/sylt-head tools/difftest.sh 2>&1 | tail -${1:-6}
tools/baseline.sh 2>&1 | tail -2
