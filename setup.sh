#!/bin/bash
# Builds the syltfacts driver (rustc_private, nightly, zero cargo dependencies) from files on disk.
set -e
cd "$(dirname "$0")"
mkdir -p build evidence
cd engines/syltfacts
CARGO_NET_OFFLINE=true CARGO_TARGET_DIR=../../build/syltfacts-target cargo build --release --offline
test -x ../../build/syltfacts-target/release/syltfacts
echo "setup ok"
